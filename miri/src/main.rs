//! Miri tier: the same kind of thread programs as schedsim, as plain
//! std::thread code. Miri is the deterministic scheduler here (one seed = one
//! interleaving, pre-emption at basic-block granularity, data-race detector).
//!
//!   rbxmiri shared <program-seed>     C18: SharedString new/clone/drop programs
//!   rbxmiri uid <program-seed>        C12: concurrent UniqueId::now()
//!
//! Exit code 0 = oracles held; panics (exit 101 / Miri error) = violation.

use std::collections::BTreeMap;
use std::sync::{Arc, Mutex};

use rbx_types::SharedString;

struct Rng(u64);
impl Rng {
    fn next(&mut self) -> u64 {
        self.0 = self.0.wrapping_add(0x9e3779b97f4a7c15);
        let mut z = self.0;
        z = (z ^ (z >> 30)).wrapping_mul(0xbf58476d1ce4e5b9);
        z = (z ^ (z >> 27)).wrapping_mul(0x94d049bb133111eb);
        z ^ (z >> 31)
    }
    fn below(&mut self, n: u64) -> u64 {
        self.next() % n
    }
}

#[derive(Clone, Debug)]
enum Op {
    New(u8, u8),
    Clone(u8, u8),
    Drop(u8),
    Read(u8),
}

const SLOTS: usize = 3;

fn gen_programs(seed: u64) -> Vec<Vec<Op>> {
    let mut r = Rng(seed);
    let threads = 2 + r.below(2) as usize;
    let alphabet = 1 + r.below(2) as u8;
    let mut out = Vec::new();
    for _ in 0..threads {
        let n = 2 + r.below(4) as usize;
        let mut ops = Vec::new();
        let mut filled = [false; SLOTS];
        for _ in 0..n {
            let any = filled.iter().any(|f| *f);
            let k = if any { r.below(10) } else { 0 };
            match k {
                0..=3 => {
                    let s = r.below(SLOTS as u64) as u8;
                    ops.push(Op::New(r.below(alphabet as u64) as u8, s));
                    filled[s as usize] = true;
                }
                4 => {
                    let from = (0..SLOTS as u8).find(|i| filled[*i as usize]).unwrap();
                    let s = r.below(SLOTS as u64) as u8;
                    if s != from {
                        ops.push(Op::Clone(from, s));
                        filled[s as usize] = true;
                    }
                }
                5..=8 => {
                    let s = (0..SLOTS as u8).rev().find(|i| filled[*i as usize]).unwrap();
                    ops.push(Op::Drop(s));
                    filled[s as usize] = false;
                }
                _ => {
                    let s = (0..SLOTS as u8).find(|i| filled[*i as usize]).unwrap();
                    ops.push(Op::Read(s));
                }
            }
        }
        out.push(ops);
    }
    out
}

fn content(c: u8) -> Vec<u8> {
    format!("miri-content-{}", c).into_bytes()
}

#[derive(Default)]
struct Registry {
    live: BTreeMap<u8, Vec<(usize, u8, usize)>>,
}

fn run_shared(seed: u64) {
    let programs = gen_programs(seed);
    if std::env::args().any(|a| a == "--print") {
        eprintln!("programs: {:?}", programs);
    }
    let reg: Arc<Mutex<Registry>> = Arc::new(Mutex::new(Registry::default()));
    let mut handles = Vec::new();
    for (tid, ops) in programs.into_iter().enumerate() {
        let reg = reg.clone();
        handles.push(std::thread::spawn(move || {
            let mut slots: Vec<Option<(SharedString, u8)>> = (0..SLOTS).map(|_| None).collect();
            let register = |slot: u8, c: u8, h: &SharedString| {
                let ptr = h.data().as_ptr() as usize;
                let mut g = reg.lock().unwrap();
                if let Some(list) = g.live.get(&c) {
                    for (ot, os, optr) in list {
                        assert!(
                            *optr == ptr,
                            "C18 sharing: thread {} got a buffer for content {} that differs from the live handle of thread {} slot {}",
                            tid, c, ot, os
                        );
                    }
                }
                g.live.entry(c).or_default().push((tid, slot, ptr));
            };
            let unregister = |slot: u8, c: u8| {
                let mut g = reg.lock().unwrap();
                if let Some(list) = g.live.get_mut(&c) {
                    if let Some(p) = list.iter().position(|(t, s, _)| *t == tid && *s == slot) {
                        list.remove(p);
                    }
                }
            };
            for op in ops {
                match op {
                    Op::New(c, s) => {
                        if let Some((h, oc)) = slots[s as usize].take() {
                            unregister(s, oc);
                            drop(h);
                        }
                        let h = SharedString::new(content(c));
                        assert_eq!(h.data(), content(c).as_slice(), "C18 content");
                        register(s, c, &h);
                        slots[s as usize] = Some((h, c));
                    }
                    Op::Clone(from, s) => {
                        if let Some((h, oc)) = slots[s as usize].take() {
                            unregister(s, oc);
                            drop(h);
                        }
                        if let Some((h, c)) = &slots[from as usize] {
                            let c = *c;
                            let h2 = h.clone();
                            register(s, c, &h2);
                            slots[s as usize] = Some((h2, c));
                        }
                    }
                    Op::Drop(s) => {
                        if let Some((h, c)) = slots[s as usize].take() {
                            unregister(s, c);
                            drop(h);
                        }
                    }
                    Op::Read(s) => {
                        if let Some((h, c)) = &slots[s as usize] {
                            assert_eq!(h.data(), content(*c).as_slice(), "C18 content");
                        }
                    }
                }
            }
            for s in 0..SLOTS as u8 {
                if let Some((h, c)) = slots[s as usize].take() {
                    unregister(s, c);
                    drop(h);
                }
            }
        }));
    }
    for h in handles {
        h.join().expect("C18 progress: a thread panicked");
    }
    #[cfg(rbx_dom_verif)]
    assert_eq!(rbx_types::verif_string_cache_len(), 0, "C18 quiescence: intern table not empty");
}

#[cfg(rbx_dom_verif)]
mod uid_hooks {
    use rbx_types::verif::Hooks;
    use std::time::{Duration, UNIX_EPOCH};
    fn nop(_: &'static str) {}
    fn acq(_: usize) {}
    fn rel(_: usize) {}
    fn tryacq(_: usize) -> Option<bool> {
        None
    }
    // Frozen clock and constant RNG: only the index can make ids distinct.
    fn now() -> Option<std::time::SystemTime> {
        Some(UNIX_EPOCH + Duration::from_secs(1_800_000_000))
    }
    fn rng() -> Option<u64> {
        Some(12345)
    }
    fn next_ref() -> Option<u128> {
        None
    }
    pub static HOOKS: Hooks = Hooks {
        yield_point: nop,
        mutex_acquire: acq,
        mutex_release: rel,
        mutex_try_acquire: tryacq,
        now,
        rng_u64: rng,
        next_ref,
    };
}

fn run_uid(seed: u64) {
    #[cfg(rbx_dom_verif)]
    rbx_types::verif::install_hooks(&uid_hooks::HOOKS);
    let mut r = Rng(seed);
    let threads = 2 + r.below(2) as usize;
    let per = 1 + r.below(3) as usize;
    let all: Arc<Mutex<Vec<rbx_types::UniqueId>>> = Arc::new(Mutex::new(Vec::new()));
    let mut handles = Vec::new();
    for _ in 0..threads {
        let all = all.clone();
        handles.push(std::thread::spawn(move || {
            for _ in 0..per {
                let id = rbx_types::UniqueId::now().expect("now() failed");
                all.lock().unwrap().push(id);
            }
        }));
    }
    for h in handles {
        h.join().expect("thread panicked");
    }
    let ids = all.lock().unwrap();
    for i in 0..ids.len() {
        for j in 0..i {
            assert!(ids[i] != ids[j], "C12: UniqueId::now() returned {} twice", ids[i]);
        }
    }
}

fn main() {
    let args: Vec<String> = std::env::args().collect();
    let kind = args.get(1).map(|s| s.as_str()).unwrap_or("shared");
    let seed: u64 = args.get(2).and_then(|s| s.parse().ok()).unwrap_or(1);
    match kind {
        "uid" => run_uid(seed),
        _ => run_shared(seed),
    }
}

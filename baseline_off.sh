#!/bin/bash
# Runs the repository's own test suite with the verification guard OFF and
# checks that every test listed as stable_pass in /root/.vp/BASELINE.json passes.
set -u
cd /repo || exit 2
unset RUSTFLAGS
LOG=$(mktemp)
CARGO_NET_OFFLINE=true cargo nextest run --workspace --no-fail-fast --test-threads 8 --offline >"$LOG" 2>&1
python3 - "$LOG" <<'PY'
import json,re,sys
log=open(sys.argv[1],errors='replace').read()
passed=set()
for m in re.finditer(r'^\s+PASS \[[^\]]*\]\s+(?:\(\s*\d+/\d+\)\s+)?(\S+)\s+(\S+)\s*$',log,re.M):
    passed.add(m.group(1)+'::'+m.group(2))
base=json.load(open('/root/.vp/BASELINE.json'))['stable_pass']
missing=[t for t in base if t not in passed]
print(f"baseline: {len(base)} stable tests, {len(base)-len(missing)} passed with guard off")
if missing:
    print("NOT PASSING:",*missing[:20],sep="\n  ")
    sys.exit(1)
PY
rc=$?
rm -f "$LOG"
exit $rc

#!/bin/bash
# confirm_mutant.sh <worktree> <seeded-id> <property> <crate> [RUSTFLAGS for demo]
# Confirms, in the scratch worktree: (1) demo fails with the change, (2) demo passes
# without it, (3) the 177 baseline tests still pass with the change. Then stores
# patch.diff + demo + MUTANT.md + meta.json under /verif/seeded/<id>/.
set -u
W="$1"; ID="$2"; PROP="$3"; CRATE="$4"; DEMOFLAGS="${5:-}"
export CARGO_NET_OFFLINE=true CARGO_TARGET_DIR="$W/target"
cd "$W" || exit 2
SRC=$(git status --porcelain | grep '^ M' | awk '{print $2}')
git diff -- $SRC > /tmp/mut/$ID.patch
DEMO=$(ls $CRATE/tests/*.rs | head -1)
TESTNAME=$(basename "$DEMO" .rs)
run_demo() { RUSTFLAGS="$DEMOFLAGS" cargo test --offline -p "$CRATE" --test "$TESTNAME" 2>&1 | grep -E "^test result|^test .* (ok|FAILED)" ; }
echo "--- demo WITH change"; WITH=$(run_demo); echo "$WITH"
git checkout -- $SRC
echo "--- demo WITHOUT change"; WITHOUT=$(run_demo); echo "$WITHOUT"
git apply /tmp/mut/$ID.patch
echo "--- baseline suite WITH change"
cargo nextest run --workspace --no-fail-fast --offline > /tmp/mut/$ID.suite.log 2>&1
SUITE=$(python3 - /tmp/mut/$ID.suite.log <<'PY'
import json,re,sys
log=open(sys.argv[1],errors='replace').read()
passed=set(m.group(1)+'::'+m.group(2) for m in re.finditer(r'^\s+PASS \[[^\]]*\]\s+(?:\(\s*\d+/\d+\)\s+)?(\S+)\s+(\S+)\s*$',log,re.M))
base=json.load(open('/root/.vp/BASELINE.json'))['stable_pass']
missing=[t for t in base if t not in passed]
print(f"{len(base)-len(missing)}/{len(base)} baseline tests pass", "MISSING:"+",".join(missing[:5]) if missing else "")
PY
)
echo "$SUITE"
FAILW=$(echo "$WITH" | grep -c "FAILED")
FAILWO=$(echo "$WITHOUT" | grep -c "FAILED")
mkdir -p /verif/seeded/$ID
cp /tmp/mut/$ID.patch /verif/seeded/$ID/patch.diff
cp "$DEMO" /verif/seeded/$ID/
cp MUTANT.md /verif/seeded/$ID/MUTANT.md
python3 - "$ID" "$PROP" "$CRATE" "$DEMO" "$DEMOFLAGS" "$FAILW" "$FAILWO" "$SUITE" <<'PY'
import json,sys
id_,prop,crate,demo,flags,fw,fwo,suite=sys.argv[1:9]
md=open('MUTANT.md').read()
meta={"id":id_,"property":prop,"changed_files":[l.split()[-1] for l in open(f'/verif/seeded/{id_}/patch.diff') if l.startswith('+++ b/')],
 "demonstration":{"file":demo,"command":(("RUSTFLAGS='"+flags+"' ") if flags else "")+"cargo test --offline -p "+crate+" --test "+demo.split('/')[-1][:-3],
   "with_change_failed_lines":int(fw),"without_change_failed_lines":int(fwo)},
 "existing_suite_with_change":suite,
 "confirmed":"demo fails with the change and passes without it; baseline suite re-run in the scratch worktree by tools/confirm_mutant.sh" if int(fw)>0 and int(fwo)==0 and suite.startswith('177/177') else "NOT CONFIRMED",
 "needs_to_manifest":"see MUTANT.md",
 "source":"written by an independent sub-agent that was given only the property text and a scratch worktree"}
json.dump(meta,open(f'/verif/seeded/{id_}/meta.json','w'),indent=1)
print(meta["confirmed"])
PY

#!/bin/bash
# confirm_benign.sh <worktree> <seeded-id> <property> <crate>
# A property-preserving change: the demo PASSES with the change and FAILS without
# it (so the change is observable), and the 177 baseline tests pass with it.
set -u
W="$1"; ID="$2"; PROP="$3"; CRATE="$4"; DEMOFLAGS="${5:-}"
export CARGO_NET_OFFLINE=true CARGO_TARGET_DIR="$W/target"
cd "$W" || exit 2
SRC=$(git status --porcelain | grep '^ M' | awk '{print $2}')
git diff -- $SRC > /tmp/mut/$ID.patch
DEMO=$(ls $CRATE/tests/*.rs | head -1)
TESTNAME=$(basename "$DEMO" .rs)
run_demo() { RUSTFLAGS="$DEMOFLAGS" cargo test --offline -p "$CRATE" --test "$TESTNAME" 2>&1 | grep -E "^test result|^test .* (ok|FAILED)|^error" ; }
echo "--- demo WITH change"; WITH=$(run_demo); echo "$WITH"
git checkout -- $SRC
echo "--- demo WITHOUT change"; WITHOUT=$(run_demo); echo "$WITHOUT"
git apply /tmp/mut/$ID.patch
cargo nextest run --workspace --no-fail-fast --offline > /tmp/mut/$ID.suite.log 2>&1
SUITE=$(python3 - /tmp/mut/$ID.suite.log <<'PY'
import json,re,sys
log=open(sys.argv[1],errors='replace').read()
passed=set(m.group(1)+'::'+m.group(2) for m in re.finditer(r'^\s+PASS \[[^\]]*\]\s+(?:\(\s*\d+/\d+\)\s+)?(\S+)\s+(\S+)\s*$',log,re.M))
base=json.load(open('/root/.vp/BASELINE.json'))['stable_pass']
missing=[t for t in base if t not in passed]
print(f"{len(base)-len(missing)}/{len(base)} baseline tests pass", "MISSING:"+",".join(missing[:5]) if missing else "")
PY
)
echo "$SUITE"
FAILW=$(echo "$WITH" | grep -c "FAILED\|^error")
FAILWO=$(echo "$WITHOUT" | grep -c "FAILED\|^error")
mkdir -p /verif/seeded/$ID
cp /tmp/mut/$ID.patch /verif/seeded/$ID/patch.diff
cp "$DEMO" /verif/seeded/$ID/
cp BENIGN.md /verif/seeded/$ID/BENIGN.md
python3 - "$ID" "$PROP" "$CRATE" "$DEMO" "$FAILW" "$FAILWO" "$SUITE" <<'PY'
import json,sys
id_,prop,crate,demo,fw,fwo,suite=sys.argv[1:8]
ok=int(fw)==0 and int(fwo)>0 and suite.startswith('177/177')
meta={"id":id_,"property":prop,"kind":"property-preserving","expected_exit":0,
 "changed_files":[l.split()[-1] for l in open(f'/verif/seeded/{id_}/patch.diff') if l.startswith('+++ b/')],
 "demonstration":{"file":demo,"command":"cargo test --offline -p "+crate+" --test "+demo.split('/')[-1][:-3],
   "with_change_failed_lines":int(fw),"without_change_failed_lines":int(fwo)},
 "existing_suite_with_change":suite,
 "confirmed":"observable difference shown (demo passes with the change, fails without); baseline suite passes with the change; the argument that the property still holds is in BENIGN.md and was reviewed by hand" if ok else "NOT CONFIRMED",
 "source":"written by an independent sub-agent that was given only the property text and a scratch worktree, asked for a behaviour-changing but property-preserving change"}
json.dump(meta,open(f'/verif/seeded/{id_}/meta.json','w'),indent=1)
print(meta["confirmed"][:60])
PY

#!/bin/bash
# every check against every property-preserving change
cd /verif
for id in "$@"; do
  git -C /repo apply /verif/seeded/$id/patch.diff || { echo "$id PATCH-DOES-NOT-APPLY"; continue; }
  for p in C07 C09 C10 C11 C12 C13 C18; do
    out=$(./check $p quick 2>&1); rc=$?
    echo "$id $p rc=$rc $(echo "$out" | grep -E '^ *key: ' | head -3 | tr '\n' ' ')"
  done
  git -C /repo checkout -- .
done
./check --build >/dev/null 2>&1

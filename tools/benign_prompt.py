import sys
wid, hint = sys.argv[1], sys.argv[2]
pid = wid.split('-')[0]
text = open(f'/tmp/mut/{pid}.txt').read()
d = f'/tmp/mut/{wid}'
print(f"""You are helping to test a verification harness for FALSE ALARMS by producing a realistic, behaviour-changing but PROPERTY-PRESERVING variant of a library.

You have your own scratch git worktree of the Rust repository rojo-rbx/rbx-dom at {d} (a detached checkout). Work ONLY inside {d}. Do NOT touch /repo, and do NOT read anything under /verif or /root/.vp. The machine has no network: always pass --offline to cargo, and set CARGO_TARGET_DIR={d}/target for every cargo command so builds stay inside your worktree.

Here is a semantic property of the library:

{text}
Task: make ONE realistic change to the library source (a refactoring, optimisation, stricter or more lenient validation, a different but equally valid output or internal order, different error kinds/messages, a different way of producing fresh values, ...) such that:
 (a) the workspace still compiles;
 (b) the repository's existing test suite, unedited, still passes: run `cargo nextest run --workspace --no-fail-fast --offline`. About 90 tests named tests::models::* / tests::places::* (and two rbx_xml tests::edge_cases tests) fail even on the unchanged tree because the test-files submodule is absent - those are expected. Every test that passes on the unchanged tree must still pass with your change (compare the sets);
 (c) the change DOES alter something observable in the area the property talks about (so that a checker that demands more than the property literally states - for instance one that compares against recorded golden outputs, expects particular error messages, particular fresh values, a particular internal order, or acceptance of particular malformed inputs - would complain);
 (d) but the property, read literally and completely, STILL HOLDS for every input/history/schedule it quantifies over. Be rigorous here: go through each clause of the statement and argue why it is unaffected. If in doubt, choose a safer change. Do not break any other documented behaviour of the library either.
Angle to prefer: {hint}

Deliver, inside {d}:
 1. the source change left applied in the working tree, uncommitted (do not commit anything; do not modify existing tests or snapshots). NEVER use `git stash`;
 2. a small NEW test file (for example <crate>/tests/demo_benign.rs) that shows the observable difference: it should PASS with your change and FAIL without it (or print the differing observable), so that the change is demonstrably not a no-op;
 3. a file {d}/BENIGN.md describing: what you changed (file/function), what observable behaviour differs, a clause-by-clause argument that the property still holds, the exact command for the demonstration with results with/without the change, and the result of the existing test suite.
Keep the source change small (well under 40 changed lines) and plausible. Your final answer should be a short summary (changed file, idea, why the property still holds).""")

#!/usr/bin/env python3
"""Miri tier (thorough only) for C18 and C12.

Miri is used here as a second deterministic scheduler: one -Zmiri-seed is one
exactly repeatable interleaving of plain std::thread code, with pre-emption at
basic-block granularity and a data-race detector. The programs are generated
from a program seed; (program seed, miri seed) is the replay.

  miri_tier.py run <C18|C12> <n_programs> <n_seeds>
  miri_tier.py replay <file>
"""
import json, os, re, subprocess, sys, time

ROOT = os.environ.get("RBXSIM_ROOT", "/verif")
MIRI = ROOT + "/miri"

def cfg_for(prop):
    if prop == "C12":
        # clock/RNG hooks must be compiled in so that only the index can make ids distinct
        return dict(kind="uid", target=ROOT + "/target/miri-verif", rustflags="--cfg rbx_dom_verif", cfg="rbx_dom_verif on (frozen clock, constant RNG, no scheduler hooks)")
    return dict(kind="shared", target=ROOT + "/target/miri-plain", rustflags="", cfg="guard off: unwrapped std Arc/Mutex")

def run_miri(c, program_seed, miriflags, timeout=1800):
    env = dict(os.environ, MIRIFLAGS=miriflags, CARGO_TARGET_DIR=c["target"], CARGO_NET_OFFLINE="true")
    if c["rustflags"]:
        env["RUSTFLAGS"] = c["rustflags"]
    else:
        env.pop("RUSTFLAGS", None)
    return subprocess.run(["cargo", "+nightly", "miri", "run", "--offline", "--", c["kind"], str(program_seed)],
                          cwd=MIRI, env=env, capture_output=True, text=True, timeout=timeout)

def main():
    if sys.argv[1] == "replay":
        d = json.load(open(sys.argv[2]))
        c = cfg_for(d["property"])
        r = run_miri(c, d["program_seed"], f"-Zmiri-seed={d['miri_seed']} -Zmiri-preemption-rate=0.1")
        failed = r.returncode != 0
        print((r.stdout + r.stderr)[-1500:])
        if failed:
            print(f"VIOLATION property={d['property']} replay={sys.argv[2]}")
            print(f"  reproduced key: {d['expect_key']}")
            sys.exit(1)
        print("not reproduced")
        sys.exit(0)

    prop, n_prog, n_seeds = sys.argv[2], int(sys.argv[3]), int(sys.argv[4])
    c = cfg_for(prop)
    base = int(os.environ.get("VERIF_SEED", "20261002")) % 1_000_000
    t0 = time.time()
    executions = 0
    violation = None
    for i in range(n_prog):
        ps = base * 100 + i
        r = run_miri(c, ps, f"-Zmiri-many-seeds=0..{n_seeds} -Zmiri-preemption-rate=0.1")
        out = r.stdout + r.stderr
        if r.returncode != 0:
            m = re.search(r"FAILING SEED: (\d+)", out)
            if not m:
                print("HARNESS-ERROR: miri run failed without a failing seed:\n" + out[-2000:], file=sys.stderr)
                sys.exit(2)
            seed = int(m.group(1))
            msgs = [l for l in out.splitlines() if l.startswith("C18") or l.startswith("C12") or "panicked at" in l or "Undefined Behavior" in l or "Data race" in l]
            violation = dict(program_seed=ps, miri_seed=seed, messages=msgs[:6])
            executions += seed + 1
            break
        executions += n_seeds
    wall = time.time() - t0
    ev_path = f"{ROOT}/evidence/{prop}.json"
    ev = json.load(open(ev_path))
    ev["coverage"]["miri_tier"] = dict(programs=n_prog if not violation else i + 1, seeds_per_program=n_seeds, executions=executions,
        wall_s=round(wall, 1), flags="-Zmiri-many-seeds -Zmiri-preemption-rate=0.1", build=c["cfg"],
        note="each (program seed, miri seed) pair is one exactly repeatable interleaving; Miri also reports data races and undefined behaviour")
    ev["coverage"]["evaluations"] += executions
    ev["wall_s"] = ev.get("wall_s", 0) + wall
    if violation:
        key = f"miri|{c['kind']}|{'; '.join(violation['messages'][:1])[:120]}"
        os.makedirs(f"{ROOT}/replays/{prop}", exist_ok=True)
        path = f"{ROOT}/replays/{prop}/miri-{c['kind']}-{violation['program_seed']}-{violation['miri_seed']}.json"
        json.dump(dict(property=prop, engine="miri", expect_key=key, **violation), open(path, "w"), indent=1)
        ev["violations"] = ev.get("violations", 0) + 1
        ev["coverage"].setdefault("new_violation_keys", []).append(key)
        json.dump(ev, open(ev_path, "w"), indent=1)
        print(f"VIOLATION property={prop} replay={path}")
        print(f"  key: {key}")
        for m in violation["messages"]:
            print("  " + m)
        sys.exit(1)
    json.dump(ev, open(ev_path, "w"), indent=1)
    os.makedirs(f"{ROOT}/evidence/thorough", exist_ok=True)
    json.dump(ev, open(f"{ROOT}/evidence/thorough/{prop}.json", "w"), indent=1)
    print(f"miri tier: {n_prog} programs x {n_seeds} seeds = {executions} interleavings, {wall:.0f}s, no violation")

main()

#!/usr/bin/env python3
"""Sensitivity proof: deliberate property-breaking (and a few property-preserving)
edits are applied to /repo one at a time, the quick check of the property is run,
and the tree is restored. Expected: exit 1 for breaking edits, exit 0 for the
preserving ones. Results go to /verif/sensitivity/RESULTS.json.

Usage: tools/sensitivity.py [name-substring ...]
Also runs every /verif/seeded/<id>/patch.diff (expected: exit 1 for meta.property).
"""
import json, os, subprocess, sys, time, glob

REPO = os.environ.get("RBXSIM_REPO", "/repo")
ROOT = os.environ.get("RBXSIM_ROOT", os.path.dirname(os.path.dirname(os.path.abspath(__file__))))

# (name, property, expect_exit, file, old, new)
EDITS = [
 # ---- builder API (C10: "children in builder order") ----
 ("c10-builder-add-children-replaces-instead-of-extending", "C10", 1, "rbx_dom_weak/src/instance.rs",
  "        I: IntoIterator<Item = InstanceBuilder>,\n    {\n        self.children.extend(children);\n    }",
  "        I: IntoIterator<Item = InstanceBuilder>,\n    {\n        self.children = children.into_iter().collect();\n    }"),
 ("c10-builder-with-child-prepends", "C10", 1, "rbx_dom_weak/src/instance.rs",
  "    pub fn with_child(mut self, child: InstanceBuilder) -> Self {\n        self.children.push(child);",
  "    pub fn with_child(mut self, child: InstanceBuilder) -> Self {\n        self.children.insert(0, child);"),
 # ---- C13 ----
 ("c13-attr-reader-drops-interrupted-arm", "C13", 1, "rbx_types/src/attributes/reader.rs",
  "            Err(e) if e.kind() == io::ErrorKind::Interrupted => {}\n            Err(e) => return Err(e),",
  "            Err(e) => return Err(e),"),
 # read_u8 is only ever called on in-memory chunk slices, which never deliver short or
 # interrupted reads; a bare read() there turns "chunk data ends early" into zeros, which
 # changes Ok/Err for damaged files but breaks nothing C13 states. Must NOT alarm.
 ("c13-read-u8-uses-bare-read(equivalent-under-C13)", "C13", 0, "rbx_binary/src/core.rs",
  "        let mut buffer = [0u8];\n        self.read_exact(&mut buffer)?;\n\n        Ok(buffer[0])",
  "        let mut buffer = [0u8];\n        let _ = self.read(&mut buffer)?;\n\n        Ok(buffer[0])"),
 ("c13-read-le-u32-uses-bare-read", "C13", 1, "rbx_binary/src/core.rs",
  "        let mut buffer = [0; 4];\n        self.read_exact(&mut buffer)?;\n\n        Ok(u32::from_le_bytes(buffer))",
  "        let mut buffer = [0; 4];\n        let _ = self.read(&mut buffer)?;\n\n        Ok(u32::from_le_bytes(buffer))"),
 ("c13-chunk-dump-ignores-write-error", "C13", 1, "rbx_binary/src/chunk.rs",
  "                writer.write_le_u32(0)?;\n                writer.write_le_u32(self.buffer.len() as u32)?;\n                writer.write_le_u32(0)?;\n\n                writer.write_all(&self.buffer)?;",
  "                writer.write_le_u32(0)?;\n                writer.write_le_u32(self.buffer.len() as u32)?;\n                writer.write_le_u32(0)?;\n\n                let _ = writer.write_all(&self.buffer);"),
 ("c13-eof-before-end-chunk-accepted", "C13", 1, "rbx_binary/src/deserializer/mod.rs",
  "            let chunk = deserializer.next_chunk()?;\n",
  "            let chunk = match deserializer.next_chunk() {\n                Ok(chunk) => chunk,\n                Err(_) => break,\n            };\n"),
 ("c13-xml-expect-next-unwraps", "C13", 1, "rbx_xml/src/deserializer_core.rs",
  "            Some(Ok(event)) => Ok(event),\n            Some(Err(err)) => Err(self.error(err)),\n            None => Err(self.error(DecodeErrorKind::UnexpectedEof)),\n        }\n    }\n\n    pub fn expect_peek",
  "            Some(Ok(event)) => Ok(event),\n            Some(Err(err)) => panic!(\"xml error {:?}\", self.error(err).to_string()),\n            None => Err(self.error(DecodeErrorKind::UnexpectedEof)),\n        }\n    }\n\n    pub fn expect_peek"),
 ("c13-chunk-reserved-panics-again", "C13", 1, "rbx_binary/src/chunk.rs",
  "    if reserved != 0 {\n        return Err(io::Error::new(",
  "    if reserved != 0 {\n        panic!(\"reserved {}\", reserved);\n        #[allow(unreachable_code)]\n        return Err(io::Error::new("),
 ("c13-sstr-prealloc-from-count", "C13", 1, "rbx_binary/src/deserializer/state.rs",
  "        let num_entries = chunk.read_le_u32()?;\n",
  "        let num_entries = chunk.read_le_u32()?;\n        self.shared_strings.reserve(num_entries as usize);\n"),
 # ---- C18 ----
 ("c18-drop-removes-unconditionally", "C18", 1, "rbx_types/src/shared_string.rs",
  "            if let Entry::Occupied(entry) = cache.entry(self.hash) {\n                if entry.get().strong_count() == 0 {\n                    entry.remove();\n                }\n            }",
  "            cache.remove(&self.hash);"),
 ("c18-never-removes", "C18", 1, "rbx_types/src/shared_string.rs",
  "                if entry.get().strong_count() == 0 {\n                    entry.remove();\n                }",
  "                let _ = entry;"),
 ("c18-strong-count-check-instead-of-into-inner", "C18", 1, "rbx_types/src/shared_string.rs",
  "        if Arc::into_inner(self.data.take().unwrap()).is_some() {",
  "        let data = self.data.take().unwrap();\n        let last = Arc::strong_count(&data) == 1;\n        drop(data);\n        if last {"),
 ("c18-new-releases-lock-between-lookup-and-insert", "C18", 1, "rbx_types/src/shared_string.rs",
  "        let data = {\n            let mut cache = STRING_CACHE.lock().unwrap();\n\n            match cache.entry(hash) {",
  "        let data = {\n            let existing = STRING_CACHE.lock().unwrap().get(&hash).and_then(|weak| weak.upgrade());\n            if let Some(handle) = existing {\n                return SharedString {\n                    data: Some(handle),\n                    hash,\n                };\n            }\n            let handle: Arc<Vec<u8>> = Arc::from(data);\n            STRING_CACHE.lock().unwrap().insert(hash, Arc::downgrade(&handle));\n            return SharedString {\n                data: Some(handle),\n                hash,\n            };\n            #[allow(unreachable_code)]\n            let mut cache = STRING_CACHE.lock().unwrap();\n\n            match cache.entry(hash) {"),
 # ---- C12 ----
 ("c12-inner-remove-does-not-free", "C12", 1, "rbx_dom_weak/src/dom.rs",
  "            self.unique_ids.remove(unique_id);\n", ""),
 ("c12-inner-insert-always-regenerates", "C12", 1, "rbx_dom_weak/src/dom.rs",
  "            if self.unique_ids.contains(unique_id) {", "            if true || self.unique_ids.contains(unique_id) {"),
 ("c12-index-load-store-instead-of-fetch-add", "C12", 1, "rbx_types/src/unique_id.rs",
  "            index: INDEX.fetch_add(1, Ordering::AcqRel),",
  "            index: {\n                let i = INDEX.load(Ordering::Acquire);\n                INDEX.store(i.wrapping_add(1), Ordering::Release);\n                i\n            },"),
 ("c12-transfer-descendants-bypass-inner-insert", "C12", 1, "rbx_dom_weak/src/dom.rs",
  "            to_move.extend(instance.children.iter().copied());\n            dest.inner_insert(referent, instance);",
  "            to_move.extend(instance.children.iter().copied());\n            dest.instances.insert(referent, instance);"),
 ("c12-from-raw-does-not-record-ids", "C12", 1, "rbx_dom_weak/src/dom.rs",
  "        WeakDom {\n            instances,\n            root_ref,\n            unique_ids,\n        }",
  "        let _ = unique_ids;\n        WeakDom {\n            instances,\n            root_ref,\n            unique_ids: AHashSet::new(),\n        }"),
 # ---- C09 / C10 / C11 ----
 ("c10-insert-at-front", "C10", 1, "rbx_dom_weak/src/dom.rs",
  "                    .unwrap_or_else(|| panic!(\"cannot insert into parent that does not exist\"))\n                    .children\n                    .push(builder.referent);",
  "                    .unwrap_or_else(|| panic!(\"cannot insert into parent that does not exist\"))\n                    .children\n                    .insert(0, builder.referent);"),
 ("c09-destroy-does-not-unlink", "C09", 1, "rbx_dom_weak/src/dom.rs",
  "        let parent_ref = instance.parent;\n        if parent_ref.is_some() {\n            let parent = self.instances.get_mut(&parent_ref).unwrap();\n            parent.children.retain(|&child| child != referent);\n        }\n\n        let mut to_remove = VecDeque::new();",
  "        let mut to_remove = VecDeque::new();"),
 ("c09-transfer-forgets-to-reparent", "C09", 1, "rbx_dom_weak/src/dom.rs",
  "        instance.parent = dest_parent_ref;\n        dest.inner_insert(referent, instance);",
  "        dest.inner_insert(referent, instance);"),
 ("c09-descendants-uses-stack-still-parents-first", "C09", 0, "rbx_dom_weak/src/dom.rs",
  "            .pop_front()\n            .and_then(|r| self.dom.get_by_ref(r))?;\n        self.queue.extend(instance.children());",
  "            .pop_back()\n            .and_then(|r| self.dom.get_by_ref(r))?;\n        self.queue.extend(instance.children().iter().rev());"),
 ("c09-descendants-skips-last-child", "C09", 1, "rbx_dom_weak/src/dom.rs",
  "        self.queue.extend(instance.children());\n        Some(instance)",
  "        let kids = instance.children();\n        self.queue.extend(&kids[..kids.len().saturating_sub(if kids.len() > 2 { 1 } else { 0 })]);\n        Some(instance)"),
 ("c11-rewrite-nulls-refs-that-exist-in-destination", "C11", 1, "rbx_dom_weak/src/dom.rs",
  "                    } else if !existing_dest_refs.contains(original_ref) {",
  "                    } else if true {"),
 ("c11-clone-reuses-referent", "C11", 1, "rbx_dom_weak/src/dom.rs",
  "        let builder = InstanceBuilder::new(instance.class)\n            .with_name(instance.name.to_string())",
  "        let builder = InstanceBuilder::new(instance.class)\n            .with_referent(if instance.children.is_empty() && source.root_ref() != original_ref && instance.parent.is_none() { original_ref } else { Ref::new() })\n            .with_name(instance.name.to_string())"),
 ("c10-transfer-within-prepends", "C10", 1, "rbx_dom_weak/src/dom.rs",
  "            .unwrap_or_else(|| panic!(\"cannot move into an instance that does not exist\"));\n        dest_parent.children.push(referent);",
  "            .unwrap_or_else(|| panic!(\"cannot move into an instance that does not exist\"));\n        dest_parent.children.insert(0, referent);"),
 # ---- C07 ----
 ("c07-xml-serializer-drops-property-sort", "C07", 1, "rbx_xml/src/serializer.rs",
  "    property_buffer.sort_unstable_by_key(|(key, _)| *key);", ""),
 ("c07-binary-drops-shared-string-sort", "C07", 1, "rbx_binary/src/serializer/state.rs",
  "        self.shared_strings.sort_by_key(SharedString::hash);", ""),
 ("c07-binary-unvisited-properties-in-hash-order", "C07", 1, "rbx_binary/src/serializer/state.rs",
  "        unvisited.sort_unstable_by_key(|(prop_name, _)| **prop_name);", ""),
]

def sh(cmd, **kw):
    return subprocess.run(cmd, shell=True, capture_output=True, text=True, **kw)

def repo_clean():
    return sh(f"git -C {REPO} status --porcelain").stdout.strip() == ""

def restore():
    sh(f"git -C {REPO} checkout -- . && git -C {REPO} clean -fdq -- rbx_types rbx_dom_weak rbx_binary rbx_xml rbx_reflection rbx_reflection_database")

def run_check(prop, scale):
    env = dict(os.environ, RBXSIM_SCALE=str(scale))
    t = time.time()
    r = subprocess.run([ROOT + "/check", prop, "quick"], capture_output=True, text=True, env=env)
    keys = [l.strip()[5:] for l in r.stdout.splitlines() if l.strip().startswith("key: ")]
    return r.returncode, keys, time.time() - t, r.stdout[-1500:] + r.stderr[-1500:]

ALL_PROPS = ["C07", "C09", "C10", "C11", "C12", "C13", "C18"]

def matrix():
    """Every seeded change against every check: which checks catch which changes."""
    scale = int(os.environ.get("SENS_SCALE", "50"))
    rows = {}
    for meta_path in sorted(glob.glob(ROOT + "/seeded/*/meta.json")):
        d = os.path.dirname(meta_path)
        name = os.path.basename(d)
        a = sh(f"git -C {REPO} apply {d}/patch.diff")
        if a.returncode != 0:
            rows[name] = "PATCH-DOES-NOT-APPLY"; restore(); continue
        row = {}
        for prop in ALL_PROPS:
            rc, keys, secs, tail = run_check(prop, scale)
            row[prop] = dict(exit=rc, keys=keys[:3])
            print(name, prop, rc, keys[:1], flush=True)
        restore()
        rows[name] = row
        json.dump(rows, open(ROOT + "/sensitivity/MATRIX.json", "w"), indent=1)
    restore()

def main():
    if sys.argv[1:2] == ["--matrix"]:
        os.makedirs(ROOT + "/sensitivity", exist_ok=True)
        if not repo_clean():
            print("refusing: repo has uncommitted changes"); sys.exit(2)
        matrix(); return
    want = sys.argv[1:]
    if not repo_clean():
        print("refusing: /repo has uncommitted changes"); sys.exit(2)
    scale = int(os.environ.get("SENS_SCALE", "100"))
    results = []
    try:
        for name, prop, expect, path, old, new in EDITS:
            if want and not any(w in name for w in want):
                continue
            full = os.path.join(REPO, path)
            src = open(full).read()
            if src.count(old) != 1:
                results.append(dict(name=name, property=prop, status="EDIT-DOES-NOT-APPLY")); print(name, "EDIT-DOES-NOT-APPLY", src.count(old)); continue
            open(full, "w").write(src.replace(old, new))
            rc, keys, secs, tail = run_check(prop, scale)
            restore()
            ok = (rc == expect)
            results.append(dict(name=name, property=prop, expected_exit=expect, exit=rc, ok=ok, scale=scale, keys=keys[:6], seconds=round(secs, 1), tail=None if ok else tail))
            print(f"{'OK  ' if ok else 'MISS'} {name:58s} {prop} exit={rc} expected={expect} {secs:5.1f}s {keys[:2]}")
        for meta_path in sorted(glob.glob(ROOT + "/seeded/*/meta.json")):
            d = os.path.dirname(meta_path)
            name = os.path.basename(d)
            if want and not any(w in ("seeded/" + name) for w in want):
                continue
            meta = json.load(open(meta_path))
            prop = meta["property"]
            a = sh(f"git -C {REPO} apply {d}/patch.diff")
            if a.returncode != 0:
                results.append(dict(name="seeded/" + name, property=prop, status="PATCH-DOES-NOT-APPLY", err=a.stderr[-300:])); print("seeded/" + name, "PATCH-DOES-NOT-APPLY"); restore(); continue
            rc, keys, secs, tail = run_check(prop, scale)
            restore()
            # Property-preserving changes (meta.expected_exit == 0) must NOT alarm.
            expect = int(meta.get("expected_exit", 1))
            ok = (rc == expect)
            results.append(dict(name="seeded/" + name, property=prop, expected_exit=expect, exit=rc, ok=ok, scale=scale, keys=keys[:6], seconds=round(secs, 1), tail=None if ok else tail))
            print(f"{'OK  ' if ok else ('MISS' if expect else 'FALSE-ALARM')} seeded/{name:51s} {prop} exit={rc} expected={expect} {secs:5.1f}s {keys[:2]}")
    finally:
        restore()
    os.makedirs(ROOT + "/sensitivity", exist_ok=True)
    out = ROOT + "/sensitivity/RESULTS.json"
    prev = {}
    if want and os.path.exists(out):
        prev = {r["name"]: r for r in json.load(open(out))}
    for r in results:
        prev[r["name"]] = r
    json.dump(list(prev.values()) if want else results, open(out, "w"), indent=1)
    # leave the harness built against the restored tree
    sh(ROOT + "/check --build")

main()

#!/usr/bin/env python3
"""Regenerates /verif/MANIFEST.json from the table below (single source of truth)."""
import json, subprocess

NA = {
 "C01": "binary write->read equality is a pure function of (DOM, compression mode); no schedule, clock, fault or history occurs in the statement",
 "C02": "XML write->read equality is a pure function of (DOM, options)",
 "C03": "conformance of emitted bytes to docs/binary.md is a pure function of the input DOM, decided by an independent decoder, not by a simulator",
 "C04": "acceptance of foreign conformant encodings quantifies over inputs produced by an independent encoder; nothing nondeterministic or faulty is involved",
 "C05": "XML conformance in both directions is a pure function of document/DOM",
 "C06": "binary-vs-XML agreement is a differential property over inputs",
 "C08": "class-column behaviour quantifies over multisets and sibling orders of the input; the part of it that depends on hash order is decided under C07",
 "C14": "attribute blob round trip and layout are pure functions of the map/bytes (delivery- and truncation-robustness of the blob decoder is covered under C13)",
 "C15": "agreement of four migration paths is a pure function of (class, property, value, element order in the input)",
 "C16": "coherence of a static data file and closure under the codecs: exhaustive walk of constant data, no execution nondeterminism",
 "C17": "serde/Display/FromStr round trips and the JSON fixture are pure functions of values",
}

CHECKS = {
 "C13": dict(engine="iosim", category="fault_enumeration", design_ref="DESIGN.md 4.1",
   technique="deterministic simulation of Read/Write seams with seeded fault injection (short/interrupted/failing reads and writes, truncation at every offset, crash-at-offset, byte damage), reference = fault-free run of the same bytes",
   text="Seeded search over fault plans on the reader/writer arguments of the real codecs, with two enumerations per small file: every strict prefix (truncation at every byte offset) and a write failure at every output offset. Oracles: no panic/abort/hang, memory bounded relative to input, every strict prefix rejected, benign delivery independent, hard errors surface. Sampling elsewhere; a clean batch is evidence, not proof.",
   note="Trusts the harness's SimReader/SimWriter to model legal std::io behaviour, the canonical DOM text for equality, and the 64 MiB/256 MiB ceilings as 'unrelated to input' for inputs <= 2 MiB. C libraries (lz4, zstd) allocate outside the counting allocator."),
}

CHECKS.update({
 "C07": dict(engine="detsim", category="exploration", design_ref="DESIGN.md 4.5",
   technique="deterministic simulation with owned nondeterminism seams: the same logical tree is rebuilt under other Ref streams, per-map and per-process hash keys (getrandom custom backend, ahash random source) and construction histories; byte equality across environments and across worker processes; save/load fixed point",
   text="Each seeded logical tree is materialised in the canonical environment and in 2-4 environments that differ only in nondeterminism or construction history, serialized with both codecs (binary x 3 compression modes, XML default and WriteUnknown) and compared byte for byte; every run index is executed a second time in another worker process under other per-process hash keys and the orchestrator compares the outputs; save(load(save(T))) must equal the next save. Sampling of trees, not exhaustive.",
   note="Only Ok/Err class is compared for failing saves. std HashMap order inside rbx_reflection's database is not owned by the simulator (OS-seeded); a dependence on it would be seen as a cross-process mismatch but would not replay."),
 "C18": dict(engine="schedsim", category="exploration", design_ref="DESIGN.md 4.2",
   technique="deterministic simulation: seeded cooperative scheduler over real threads, yield point before every Arc/Weak/Mutex operation of the real SharedString code; invariants checked during the run; recorded schedule is the replay",
   text="Seeded search over interleavings (uniform, sticky and PCT-style strategies) of 2-4 thread programs of new/clone/drop/read/compare against the real SharedString and its real global intern table. Oracles during the run: content, equality/hash, all registered live handles with equal contents share one buffer, no deadlock or panic, table empty at quiescence. A failing schedule is shrunk and replayed from its recorded choice list. Sampling, not exhaustive.",
   note="Interleavings only at synchronisation operations of the shimmed types (hook H1/H2); unsynchronised data races are out of reach here (Miri tier). The shim wraps the real std primitives."),
 "C09": dict(engine="domsim", category="exploration", design_ref="DESIGN.md 4.4",
   technique="deterministic simulation of operation histories over 1-3 real WeakDoms with owned Ref/hash-key seams; forest invariants checked on the real DOMs (public API) after every step; shrinking to a minimal history",
   text="Seeded histories of insert/destroy/transfer_within/transfer/clone_*/into_raw+from_raw within documented preconditions; after every step each DOM is checked as a well-formed forest through the public API only (child/parent agreement, listed exactly once, no cycles, parentless root, removed instances unresolvable, descendants iterator exact and parents-first). Sampling of histories, not exhaustive.",
   note="Which referents count as removed is computed from the real DOM before the operation; arguments are drawn from the reference model's node sets."),
 "C10": dict(engine="domsim", category="exploration", design_ref="DESIGN.md 4.4",
   technique="deterministic simulation of operation histories compared step by step with an executable reference model (plain ordered trees); conservation across DOMs; shrinking to a minimal history",
   text="Same histories as C09; after every step the real DOMs must equal the reference model (referent, parent, child order, name, class, exact property values), which includes the frame condition for untouched instances, conservation under transfer, insert's return value, and no leaked instances in into_raw() at the end.",
   note="Trusts the ~150-line reference model as the documented meaning of each operation. Clone referents are bound by parallel traversal, not predicted."),
 "C11": dict(engine="domsim", category="exploration", design_ref="DESIGN.md 4.4",
   technique="deterministic simulation of operation histories with clone operations checked against the reference model's three-way Ref rewrite rule; shrinking to a minimal history",
   text="Histories biased towards clone_within / clone_into_external / clone_multiple_into_external interleaved with the other operations; each clone must be parentless, use only fresh referents, be isomorphic to the original (shape, order, names, classes, values), leave the source DOM unchanged, and rewrite every Ref property by the three-way rule evaluated against the destination DOM.",
   note="Ref properties nested inside Content or Attributes are not generated (the property speaks of Ref properties)."),
 "C12": dict(engine="domsim+schedsim", category="exploration", design_ref="DESIGN.md 4.3",
   technique="deterministic simulation: operation histories with a UniqueId ledger oracle (incl. encode/decode and duplicate-id files), clock/RNG fault injection on the UniqueId::now() seam, and seeded thread schedules over the AtomicU32 index",
   text="Three parts in one check: (a) histories over DOMs whose builders carry UniqueIds from a small pool, with an order-agnostic ledger oracle after every step (no duplicates per DOM, exactly one holder keeps a non-colliding id, colliding ids are replaced by fresh ones, nobody else changes, freed ids are reusable) including DOMs obtained from both readers; (b) frozen/jumping clock and constant/cycling RNG injected behind UniqueId::now(); (c) 2-4 threads calling UniqueId::now() under the seeded scheduler, all ids distinct.",
   note="For decode operations only uniqueness and bookkeeping are asserted, not value fidelity (C01/C02). Clock values outside the window in which now() is documented to work are excluded. Known findings for DOMs produced by rbx_xml are listed in known_findings.json."),
})

PENDING = {k: 'check under construction in this round (deterministic simulation applies; see DESIGN.md section 4); not claimed until its check is registered' for k in []}

def main():
    props = [json.loads(l) for l in open('/verif/properties.jsonl')]
    hooks = subprocess.run(['git','-C','/repo','log','--format=%H %s','--grep=^verif hook'],capture_output=True,text=True).stdout.strip().splitlines()
    hook_commits = [h.split()[0] for h in hooks][::-1]
    checks=[]
    for pid,c in CHECKS.items():
        checks.append({
            "property_id": pid,
            "quick_cmd": f"./check {pid} quick",
            "thorough_cmd": f"./check {pid} thorough",
            "evidence_file": f"/verif/evidence/{pid}.json",
            "replay_cmd_template": "./check --replay {path}",
            "engine": c["engine"],
            "level_claimed": {"category": c["category"], "text": c["text"], "design_ref": c["design_ref"]},
            "level_note": c["note"],
            "technique": c["technique"],
        })
    na=[]
    for p in props:
        pid=p["id"]
        if pid in CHECKS: continue
        reason = NA.get(pid) or PENDING.get(pid) or "not claimed"
        na.append({"property_id":pid,"reason":reason})
    engines = {}
    for pid,c in CHECKS.items():
        engines.setdefault(c["engine"],[]).append(pid)
    m={"version":1,
       "setup_cmd":"./check --build",
       "hooks":{"guard":"--cfg rbx_dom_verif",
                "enable":"rustflags = [\"--cfg\",\"rbx_dom_verif\",\"--cfg\",\"getrandom_backend=\\\"custom\\\"\"] in /verif/sim/.cargo/config.toml; the harness depends on /repo/rbx_* by path",
                "baseline_off_cmd":"/verif/baseline_off.sh",
                "source_commits":hook_commits,
                "add_only":False},
       "engines":[{"name":n,"path":f"/verif/sim/src/{n.split('+')[0]}.rs","serves_properties":ps,"kind_free_text":"deterministic simulation engine of the rbxsim harness (seeded workload + fault/schedule plan -> explicit trace -> execution against real code -> oracles -> shrink -> replay file)"} for n,ps in engines.items()],
       "checks":checks,
       "notes":"One harness (/verif/sim, binary rbxsim), one entry point (./check). Exit 0 held, 1 VIOLATION, 2 harness/build error. Known findings: /verif/known_findings.json. VERIF_SEED selects the master seed (default fixed). RBXSIM_SCALE=<percent> scales run counts.",
       "not_applicable":na}
    json.dump(m,open('/verif/MANIFEST.json','w'),indent=1)
    print("checks:",[c["property_id"] for c in checks],"n/a:",[x["property_id"] for x in na])
main()

#!/usr/bin/env python3
"""Regenerates /verif/MANIFEST.json from the table below (single source of truth)."""
import json, subprocess

NA = {
 "C01": "binary write->read equality is a pure function of (DOM, compression mode); no schedule, clock, fault or history occurs in the statement",
 "C02": "XML write->read equality is a pure function of (DOM, options)",
 "C03": "conformance of emitted bytes to docs/binary.md is a pure function of the input DOM, decided by an independent decoder, not by a simulator",
 "C04": "acceptance of foreign conformant encodings quantifies over inputs produced by an independent encoder; nothing nondeterministic or faulty is involved",
 "C05": "XML conformance in both directions is a pure function of document/DOM",
 "C06": "binary-vs-XML agreement is a differential property over inputs",
 "C08": "class-column behaviour quantifies over multisets and sibling orders of the input; the part of it that depends on hash order is decided under C07",
 "C14": "attribute blob round trip and layout are pure functions of the map/bytes (delivery- and truncation-robustness of the blob decoder is covered under C13)",
 "C15": "agreement of four migration paths is a pure function of (class, property, value, element order in the input)",
 "C16": "coherence of a static data file and closure under the codecs: exhaustive walk of constant data, no execution nondeterminism",
 "C17": "serde/Display/FromStr round trips and the JSON fixture are pure functions of values",
}

CHECKS = {
 "C13": dict(engine="iosim", category="fault_enumeration", design_ref="DESIGN.md 4.1",
   technique="deterministic simulation of Read/Write seams with seeded fault injection (short/interrupted/failing reads and writes, truncation at every offset, crash-at-offset, byte damage), reference = fault-free run of the same bytes",
   text="Seeded search over fault plans on the reader/writer arguments of the real codecs, with two enumerations per small file: every strict prefix (truncation at every byte offset) and a write failure at every output offset. Oracles: no panic/abort/hang, memory bounded relative to input, every strict prefix rejected, benign delivery independent, hard errors surface. Sampling elsewhere; a clean batch is evidence, not proof.",
   note="Trusts the harness's SimReader/SimWriter to model legal std::io behaviour, the canonical DOM text for equality, and the 64 MiB/256 MiB ceilings as 'unrelated to input' for inputs <= 2 MiB. C libraries (lz4, zstd) allocate outside the counting allocator."),
}

PENDING = {k: 'check under construction in this round (deterministic simulation applies; see DESIGN.md section 4); not claimed until its check is registered' for k in ['C07','C09','C10','C11','C12','C18']}

def main():
    props = [json.loads(l) for l in open('/verif/properties.jsonl')]
    hooks = subprocess.run(['git','-C','/repo','log','--format=%H %s','--grep=^verif hook'],capture_output=True,text=True).stdout.strip().splitlines()
    hook_commits = [h.split()[0] for h in hooks][::-1]
    checks=[]
    for pid,c in CHECKS.items():
        checks.append({
            "property_id": pid,
            "quick_cmd": f"./check {pid} quick",
            "thorough_cmd": f"./check {pid} thorough",
            "evidence_file": f"/verif/evidence/{pid}.json",
            "replay_cmd_template": "./check --replay {path}",
            "engine": c["engine"],
            "level_claimed": {"category": c["category"], "text": c["text"], "design_ref": c["design_ref"]},
            "level_note": c["note"],
            "technique": c["technique"],
        })
    na=[]
    for p in props:
        pid=p["id"]
        if pid in CHECKS: continue
        reason = NA.get(pid) or PENDING.get(pid) or "not claimed"
        na.append({"property_id":pid,"reason":reason})
    engines = {}
    for pid,c in CHECKS.items():
        engines.setdefault(c["engine"],[]).append(pid)
    m={"version":1,
       "setup_cmd":"./check --build",
       "hooks":{"guard":"--cfg rbx_dom_verif",
                "enable":"rustflags = [\"--cfg\",\"rbx_dom_verif\",\"--cfg\",\"getrandom_backend=\\\"custom\\\"\"] in /verif/sim/.cargo/config.toml; the harness depends on /repo/rbx_* by path",
                "baseline_off_cmd":"/verif/baseline_off.sh",
                "source_commits":hook_commits,
                "add_only":False},
       "engines":[{"name":n,"path":f"/verif/sim/src/{n.split('+')[0]}.rs","serves_properties":ps,"kind_free_text":"deterministic simulation engine of the rbxsim harness (seeded workload + fault/schedule plan -> explicit trace -> execution against real code -> oracles -> shrink -> replay file)"} for n,ps in engines.items()],
       "checks":checks,
       "notes":"One harness (/verif/sim, binary rbxsim), one entry point (./check). Exit 0 held, 1 VIOLATION, 2 harness/build error. Known findings: /verif/known_findings.json. VERIF_SEED selects the master seed (default fixed). RBXSIM_SCALE=<percent> scales run counts.",
       "not_applicable":na}
    json.dump(m,open('/verif/MANIFEST.json','w'),indent=1)
    print("checks:",[c["property_id"] for c in checks],"n/a:",[x["property_id"] for x in na])
main()

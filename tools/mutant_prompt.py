#!/usr/bin/env python3
"""Prompt for an independent sub-agent that writes a seeded change: it receives only the
property text, a scratch worktree /tmp/mut/<id>-<letter> and an angle. usage: mutant_prompt.py <id>-<letter> "<angle>" """
import sys
wid, hint = sys.argv[1], sys.argv[2]
pid = wid.split('-')[0]
import json
text = None
for l in open('/verif/properties.jsonl'):
    p = json.loads(l)
    if p['id'] == pid:
        text = f"{p['id']}: {p['title']}\n\nStatement: {p['statement']}\n\nQuantified over: {p['quantifier']['text']}\n\nAnchored in files: {', '.join(p['anchors']['files'])}\n"
d = f'/tmp/mut/{wid}'
print(f"""You are helping to test a verification harness by producing a realistic buggy variant of a library.

You have your own scratch git worktree of the Rust repository rojo-rbx/rbx-dom at {d} (a detached checkout). Work ONLY inside {d}. Do NOT touch /repo, and do NOT read anything under /verif or /root/.vp. The machine has no network: always pass --offline to cargo, and set CARGO_TARGET_DIR={d}/target for every cargo command so builds stay inside your worktree.

Here is a semantic property of the library that is supposed to hold:

{text}
Task: make ONE realistic change to the library source (the kind of bug a maintainer could introduce while refactoring, optimising or "simplifying" code) that BREAKS this property, such that:
 (a) the workspace still compiles;
 (b) the repository's existing test suite, unedited, still passes: run `cargo nextest run --workspace --no-fail-fast --offline` (or `cargo test --workspace --no-fail-fast --offline`). About 90 tests named tests::models::* / tests::places::* in rbx_binary and rbx_xml fail even on the unchanged tree because the test-files submodule is absent - those are expected. Every test that passes on the unchanged tree must still pass with your change (compare the sets);
 (c) the breakage needs something specific to manifest - a particular interleaving, a fault or crash at a particular point, a multi-step sequence of operations, an unusual input, or two cooperating code sites that each look fine alone - NOT something ordinary use would expose at once.
Angle to prefer for this variant: {hint}

Deliver, inside {d}:
 1. the source change left applied in the working tree, uncommitted (do not commit anything; do not modify existing tests or snapshots);
 2. a demonstration: a NEW test file (for example <crate>/tests/demo_mutant.rs) or small example program that FAILS with your change and PASSES without it. Verify both directions yourself. NEVER use `git stash` (the stash is shared with other worktrees of this repository): instead save your change with `git diff -- <files> > /tmp/mut/<your-dir-name>.my.patch`, `git checkout -- <files>` to test without the change, then `git apply` the patch to restore it;
 3. a file {d}/MUTANT.md describing: what you changed (file/function), why it breaks the property, exactly what it needs in order to manifest, the exact command to run the demonstration, and the observed result with and without the change; also confirm the result of the existing test suite.
Keep the source change small (well under 40 changed lines) and plausible. Your final answer should be a short summary (changed file, idea, demo command).""")

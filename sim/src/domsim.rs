//! domsim — histories of WeakDom operations over 1-3 DOMs, compared step by
//! step with a trivial reference model (plain ordered trees). Decides C09,
//! C10, C11 and the history part of C12; each property enables only its own
//! oracles.

use std::collections::{BTreeMap, BTreeSet};

use rbx_dom_weak::types::{Ref, UniqueId, Variant};
use rbx_dom_weak::{InstanceBuilder, WeakDom};
use serde::{Deserialize, Serialize};
use serde_json::Value;

use crate::engine::{Engine, RunCtx};
use crate::prng::{Digest, Rng};
use crate::spec::{self, NodeSpec, RefT, ValSpec};

pub type NodeId = u32;
const ID_STRIDE: u32 = 512;

#[derive(Clone, Debug, Serialize, Deserialize, PartialEq)]
pub enum DKind {
    /// Insert a builder tree under `parent` (None = no parent).
    Insert { dom: u8, parent: Option<NodeId>, tree: NodeSpec },
    Destroy { node: NodeId },
    TransferWithin { node: NodeId, dest: NodeId },
    /// transfer_within whose destination lies inside the moved subtree.
    TransferWithinOwnSubtree { node: NodeId, dest: NodeId },
    Transfer { node: NodeId, dest_dom: u8, dest: NodeId },
    CloneWithin { node: NodeId },
    CloneInto { node: NodeId, dest_dom: u8 },
    CloneMulti { nodes: Vec<NodeId>, dest_dom: u8 },
    /// into_raw followed by from_raw.
    RawRoundTrip { dom: u8 },
    /// Encode the DOM's top-level children and decode them into a fresh DOM
    /// that replaces the slot. fmt: 0 binary, 1 xml.
    EncodeDecode { dom: u8, fmt: u8 },
    /// Decode a file that contains `n` Folders whose UniqueIds are all `uid`
    /// (pool index); the result replaces the slot.
    DecodeDupFile {
        dom: u8,
        fmt: u8,
        n: u8,
        uid: u8,
        /// 0 siblings of one class; 1 several classes, one instance without an id;
        /// 2 a chain (each instance the child of the previous one); 3 (binary) the
        /// class has two UniqueId PROP chunks, the earlier one with distinct ids.
        #[serde(default)]
        layout: u8,
    },
    /// Replace the slot by `WeakDom::new(builder tree)`.
    NewDom { dom: u8, tree: NodeSpec },
}

#[derive(Clone, Debug, Serialize, Deserialize, PartialEq)]
pub struct DOp {
    pub serial: u32,
    pub kind: DKind,
}

#[derive(Clone, Debug, Serialize, Deserialize, PartialEq)]
pub enum Scripted {
    /// A single chain of `depth` nested instances (no recursion allowed anywhere).
    DeepChain { depth: u32 },
    /// About `n` instances, built from wide-and-deep builders of up to 500 nodes.
    Big { n: u32, seed: u64 },
}

#[derive(Clone, Debug, Serialize, Deserialize, PartialEq)]
pub struct DomTrace {
    pub n_doms: u8,
    pub uid_mode: bool,
    pub ops: Vec<DOp>,
    /// Scale scenarios that are judged by counting and spot checks on the real
    /// DOMs (the step-by-step model is for small worlds).
    #[serde(default)]
    pub scripted: Option<Scripted>,
}

// ---------------------------------------------------------------------------
// Reference model.

#[derive(Clone, Debug, PartialEq)]
pub enum MProp {
    Val(ValSpec),
    /// Target node (may be dead), dangling value, or null.
    Ref(RefT),
    /// Ref that may point at any of several copies (the target was cloned more
    /// than once in one clone_multiple call); resolved from the real DOM.
    RefAny(Vec<NodeId>),
    Uid(u32, u32, i64),
    /// A value that came out of a decoder: present, but never compared.
    Opaque,
}

#[derive(Clone, Debug)]
pub struct MNode {
    pub dom: usize,
    pub parent: Option<NodeId>,
    pub children: Vec<NodeId>,
    pub name: String,
    pub class: String,
    pub props: BTreeMap<String, MProp>,
}

#[derive(Clone, Debug, Default)]
pub struct Model {
    pub nodes: BTreeMap<NodeId, MNode>,
    pub roots: Vec<NodeId>,
    /// Whether a DOM came out of a decoder ("built", "decoded:xml", ...).
    pub origin: Vec<String>,
}

/// What an operation did, in model terms.
#[derive(Default, Debug)]
pub struct Effect {
    pub created: Vec<NodeId>,
    /// (dom, nodes entering that DOM in this operation)
    pub entering: Option<(usize, Vec<NodeId>)>,
    pub removed: Vec<NodeId>,
    /// For clones: (original, copy) pairs in pre-order, per cloned root.
    pub clone_pairs: Vec<(NodeId, NodeId)>,
    pub clone_roots: Vec<NodeId>,
}

pub const UID_POOL: &[(u32, u32, i64)] = &[
    (0, 0, 0),
    (1, 10, 100),
    (2, 20, 200),
    (3, 30, 300),
    (7, 70, 700),
    (0, 0, 5),
    (5, 0, 0),
    (0, 5, 0),
    (u32::MAX, u32::MAX, i64::MAX),
    (1, 1, -1),
    (2, 1, -1),
    (1, 2, -1),
    (2, 10, 100),
    (1, 11, 100),
    (1, 10, 101),
    (0, 0, i64::MIN),
    (9, 9, i64::MIN),
];

impl Model {
    pub fn new(n_doms: usize) -> Model {
        let mut m = Model::default();
        for d in 0..n_doms {
            m.nodes.insert(
                d as NodeId,
                MNode { dom: d, parent: None, children: vec![], name: "DataModel".into(), class: "DataModel".into(), props: BTreeMap::new() },
            );
            m.roots.push(d as NodeId);
            m.origin.push("built".into());
        }
        m
    }

    pub fn subtree(&self, id: NodeId) -> Vec<NodeId> {
        // pre-order
        let mut out = Vec::new();
        let mut stack = vec![id];
        while let Some(n) = stack.pop() {
            if let Some(node) = self.nodes.get(&n) {
                out.push(n);
                for c in node.children.iter().rev() {
                    stack.push(*c);
                }
            }
        }
        out
    }

    pub fn is_in_subtree(&self, root: NodeId, x: NodeId) -> bool {
        let mut cur = Some(x);
        let mut guard = 0;
        while let Some(c) = cur {
            if c == root {
                return true;
            }
            cur = self.nodes.get(&c).and_then(|n| n.parent);
            guard += 1;
            if guard > 100_000 {
                return false;
            }
        }
        false
    }

    pub fn dom_nodes(&self, dom: usize) -> Vec<NodeId> {
        self.nodes.iter().filter(|(_, n)| n.dom == dom).map(|(k, _)| *k).collect()
    }

    fn add_spec(&mut self, dom: usize, parent: Option<NodeId>, spec: &NodeSpec, base: NodeId, next: &mut u32, out: &mut Vec<NodeId>) -> NodeId {
        let id = base + *next;
        *next += 1;
        let mut props = BTreeMap::new();
        for (k, v) in &spec.props {
            let p = match v {
                ValSpec::Ref(t) => MProp::Ref(t.clone()),
                ValSpec::Uid(a, b, c) => MProp::Uid(*a, *b, *c),
                other => MProp::Val(other.clone()),
            };
            props.insert(k.clone(), p);
        }
        self.nodes.insert(id, MNode { dom, parent, children: vec![], name: spec.name.clone(), class: spec.class.clone(), props });
        out.push(id);
        if let Some(p) = parent {
            if let Some(pn) = self.nodes.get_mut(&p) {
                pn.children.push(id);
            }
        }
        for c in &spec.children {
            self.add_spec(dom, Some(id), c, base, next, out);
        }
        id
    }

    fn unlink(&mut self, id: NodeId) {
        if let Some(p) = self.nodes.get(&id).and_then(|n| n.parent) {
            if let Some(pn) = self.nodes.get_mut(&p) {
                pn.children.retain(|c| *c != id);
            }
        }
    }

    /// Clones subtrees rooted at `roots` (pre-order ids from `base`) into `dest`.
    /// Roots may overlap (one inside another, or the same twice): every root
    /// still yields its own isomorphic copy; a Ref to an instance that was
    /// copied more than once may point at any of its copies.
    fn clone_subtrees(&mut self, roots: &[NodeId], dest: usize, base: NodeId, eff: &mut Effect) {
        let mut multi: BTreeMap<NodeId, Vec<NodeId>> = BTreeMap::new();
        let mut next = 0u32;
        let mut all_new = Vec::new();
        for &r in roots {
            let order = self.subtree(r);
            let mut map: BTreeMap<NodeId, NodeId> = BTreeMap::new();
            for &o in &order {
                map.insert(o, base + next);
                multi.entry(o).or_default().push(base + next);
                next += 1;
            }
            for &o in &order {
                let src = self.nodes[&o].clone();
                let new_id = map[&o];
                let parent = if o == r { None } else { src.parent.map(|p| map[&p]) };
                let children = src.children.iter().map(|c| map[c]).collect();
                self.nodes.insert(new_id, MNode { dom: dest, parent, children, name: src.name.clone(), class: src.class.clone(), props: src.props.clone() });
                eff.clone_pairs.push((o, new_id));
                all_new.push(new_id);
            }
            eff.clone_roots.push(map[&r]);
        }
        // Ref rewrite, three-way rule, evaluated against the destination.
        for &n in &all_new {
            let keys: Vec<String> = self.nodes[&n].props.keys().cloned().collect();
            for k in keys {
                let cur = self.nodes[&n].props[&k].clone();
                if let MProp::Ref(t) = cur {
                    let new_p = match t {
                        RefT::Node(x) => {
                            if let Some(copies) = multi.get(&x) {
                                if copies.len() == 1 {
                                    MProp::Ref(RefT::Node(copies[0]))
                                } else {
                                    MProp::RefAny(copies.clone())
                                }
                            } else if self.nodes.get(&x).map(|nn| nn.dom == dest).unwrap_or(false) {
                                MProp::Ref(RefT::Node(x))
                            } else {
                                MProp::Ref(RefT::Null)
                            }
                        }
                        RefT::Dangling(_) => MProp::Ref(RefT::Null),
                        RefT::Null => MProp::Ref(RefT::Null),
                    };
                    self.nodes.get_mut(&n).unwrap().props.insert(k, new_p);
                }
            }
        }
        eff.created = all_new.clone();
        eff.entering = Some((dest, all_new));
    }

    /// Applies the documented meaning of `op`. Returns None when the operation
    /// is outside its preconditions in the current state (it is then skipped).
    pub fn apply(&mut self, op: &DOp) -> Option<Effect> {
        let base = op.serial * ID_STRIDE;
        let mut eff = Effect::default();
        match &op.kind {
            DKind::Insert { dom, parent, tree } => {
                let dom = *dom as usize;
                if dom >= self.roots.len() || tree.count() >= ID_STRIDE as usize {
                    return None;
                }
                if let Some(p) = parent {
                    if self.nodes.get(p).map(|n| n.dom) != Some(dom) {
                        return None;
                    }
                }
                let mut next = 0;
                let mut out = Vec::new();
                self.add_spec(dom, *parent, tree, base, &mut next, &mut out);
                eff.created = out.clone();
                eff.entering = Some((dom, out));
            }
            DKind::Destroy { node } => {
                let n = self.nodes.get(node)?;
                if self.roots.contains(node) {
                    return None;
                }
                let _ = n;
                let sub = self.subtree(*node);
                self.unlink(*node);
                for s in &sub {
                    self.nodes.remove(s);
                }
                eff.removed = sub;
            }
            DKind::TransferWithin { node, dest } => {
                let n = self.nodes.get(node)?.clone();
                let d = self.nodes.get(dest)?.clone();
                if self.roots.contains(node) || n.dom != d.dom || self.is_in_subtree(*node, *dest) {
                    return None;
                }
                self.unlink(*node);
                self.nodes.get_mut(node).unwrap().parent = Some(*dest);
                self.nodes.get_mut(dest).unwrap().children.push(*node);
            }
            DKind::TransferWithinOwnSubtree { node, dest } => {
                let n = self.nodes.get(node)?.clone();
                let d = self.nodes.get(dest)?.clone();
                if self.roots.contains(node) || n.dom != d.dom || !self.is_in_subtree(*node, *dest) {
                    return None;
                }
                // No documented meaning; the model is left unchanged and the
                // C09 oracle judges whatever the real DOM does.
            }
            DKind::Transfer { node, dest_dom, dest } => {
                let n = self.nodes.get(node)?.clone();
                let d = self.nodes.get(dest)?.clone();
                let dd = *dest_dom as usize;
                if self.roots.contains(node) || d.dom != dd || n.dom == dd || dd >= self.roots.len() {
                    return None;
                }
                let sub = self.subtree(*node);
                self.unlink(*node);
                for s in &sub {
                    self.nodes.get_mut(s).unwrap().dom = dd;
                }
                self.nodes.get_mut(node).unwrap().parent = Some(*dest);
                self.nodes.get_mut(dest).unwrap().children.push(*node);
                eff.removed = sub.clone();
                eff.entering = Some((dd, sub));
            }
            DKind::CloneWithin { node } => {
                let n = self.nodes.get(node)?.clone();
                if self.subtree(*node).len() >= ID_STRIDE as usize {
                    return None;
                }
                self.clone_subtrees(&[*node], n.dom, base, &mut eff);
            }
            DKind::CloneInto { node, dest_dom } => {
                let n = self.nodes.get(node)?.clone();
                let dd = *dest_dom as usize;
                if dd >= self.roots.len() || dd == n.dom || self.subtree(*node).len() >= ID_STRIDE as usize {
                    return None;
                }
                self.clone_subtrees(&[*node], dd, base, &mut eff);
            }
            DKind::CloneMulti { nodes, dest_dom } => {
                let dd = *dest_dom as usize;
                if dd >= self.roots.len() {
                    return None;
                }
                if nodes.is_empty() {
                    // cloning nothing: no effect, returns no referents
                    eff.entering = Some((dd, vec![]));
                    return Some(eff);
                }
                let mut src_dom = None;
                let mut total = 0;
                for (i, n) in nodes.iter().enumerate() {
                    let node = self.nodes.get(n)?;
                    if *src_dom.get_or_insert(node.dom) != node.dom || node.dom == dd {
                        return None;
                    }
                    total += self.subtree(*n).len();
                    let _ = i;
                }
                if total >= ID_STRIDE as usize {
                    return None;
                }
                self.clone_subtrees(nodes, dd, base, &mut eff);
            }
            DKind::RawRoundTrip { dom } => {
                if *dom as usize >= self.roots.len() {
                    return None;
                }
            }
            DKind::NewDom { dom, tree } => {
                let d = *dom as usize;
                if d >= self.roots.len() || tree.count() >= ID_STRIDE as usize {
                    return None;
                }
                let old = self.dom_nodes(d);
                for n in &old {
                    self.nodes.remove(n);
                }
                let mut next = 0;
                let mut out = Vec::new();
                self.add_spec(d, None, tree, base, &mut next, &mut out);
                self.roots[d] = base;
                self.origin[d] = "built".into();
                eff.removed = old;
                eff.created = out.clone();
                eff.entering = Some((d, out));
            }
            DKind::EncodeDecode { dom, .. } | DKind::DecodeDupFile { dom, .. } => {
                if *dom as usize >= self.roots.len() {
                    return None;
                }
                // The model of that slot is rebuilt from the decoded DOM by the executor.
            }
        }
        Some(eff)
    }
}

// ---------------------------------------------------------------------------

pub struct DomSim {
    cat: spec::Catalog,
}

struct World {
    doms: Vec<WeakDom>,
    model: Model,
    ref_of: BTreeMap<NodeId, Ref>,
    /// Every referent ever bound or observed, for "fresh" checks.
    seen_refs: BTreeSet<u128>,
    /// Every UniqueId value that was ever generated by the library in this run.
    generated_uids: BTreeSet<(u32, u32, i64)>,
    /// Nodes created by clone operations (their correctness is C11's business).
    clone_created: BTreeSet<NodeId>,
}

fn ref_key(r: Ref) -> u128 {
    u128::from_str_radix(&r.to_string(), 16).unwrap_or(0)
}

fn uid_tuple(u: &UniqueId) -> (u32, u32, i64) {
    (u.index(), u.time(), u.random())
}

fn real_uid(dom: &WeakDom, r: Ref) -> Option<(u32, u32, i64)> {
    dom.get_unique_id(r).map(|u| uid_tuple(&u))
}

/// Pre-order referents of the real subtree at `r` using only the public API.
fn real_subtree(dom: &WeakDom, r: Ref) -> Vec<Ref> {
    let mut out = Vec::new();
    let mut stack = vec![r];
    let mut guard = 0;
    while let Some(x) = stack.pop() {
        guard += 1;
        if guard > 200_000 {
            break;
        }
        if let Some(inst) = dom.get_by_ref(x) {
            out.push(x);
            for c in inst.children().iter().rev() {
                stack.push(*c);
            }
        }
    }
    out
}

impl DomSim {
    pub fn new() -> DomSim {
        DomSim { cat: spec::build_catalog() }
    }

    // -- generation ------------------------------------------------------------

    fn gen_builder(&self, r: &mut Rng, model: &Model, base: NodeId, uid_mode: bool, dom: usize) -> NodeSpec {
        let wide = r.chance(1, 120);
        let n = if wide {
            if r.chance(1, 4) {
                *r.pick(&[255usize, 256, 257, 258])
            } else {
                r.range(40, 140) as usize
            }
        } else {
            match r.below(10) {
                0..=4 => 1,
                5..=7 => r.range(2, 3) as usize,
                _ => r.range(4, 6) as usize,
            }
        };
        // random shape (a wide builder is one parent with many children, some of them populated)
        let mut parent = vec![0usize; n];
        for (i, p) in parent.iter_mut().enumerate().skip(1) {
            *p = if wide && r.chance(9, 10) { 0 } else { r.usize_below(i) };
        }
        // pre-order numbering of that shape
        let mut kids: Vec<Vec<usize>> = vec![vec![]; n];
        for i in 1..n {
            kids[parent[i]].push(i);
        }
        let mut order = Vec::new();
        let mut stack = vec![0usize];
        while let Some(i) = stack.pop() {
            order.push(i);
            for k in kids[i].iter().rev() {
                stack.push(*k);
            }
        }
        let mut pre = vec![0u32; n];
        for (p, i) in order.iter().enumerate() {
            pre[*i] = p as u32;
        }
        let alive: Vec<NodeId> = model.nodes.keys().copied().collect();
        let same_dom: Vec<NodeId> = model.dom_nodes(dom);
        let mut specs: Vec<Option<NodeSpec>> = Vec::new();
        for i in 0..n {
            let class = r.pick(&["Folder", "Part", "ObjectValue", "Model", "VerifX", "Folder", "Part", ""]).to_string();
            let name = match r.below(12) {
                0..=3 => class.clone(),
                4 => String::new(),
                5 => spec::stringv(r),
                _ => format!("b{}_{}", base / ID_STRIDE, i),
            };
            let mut props: Vec<(String, ValSpec)> = Vec::new();
            // mostly a few properties; now and then enough to make the property map grow
            let n_props = if r.chance(1, 15) { r.range(8, 16) } else { r.below(4) };
            for _ in 0..n_props {
                let (k, v): (String, ValSpec) = match r.below(10) {
                    0..=4 => {
                        let k = r.pick(&["Value", "RefA", "RefB", "PrimaryPart"]).to_string();
                        let t = match r.below(12) {
                            0 => RefT::Null,
                            1 => RefT::Dangling(r.below(50)),
                            2 => RefT::Node(base + pre[i]),                       // self
                            3 | 4 => RefT::Node(base + r.below(n as u64) as u32), // inside this builder
                            5..=7 if !same_dom.is_empty() => RefT::Node(*r.pick(&same_dom)),
                            _ if !alive.is_empty() => RefT::Node(*r.pick(&alive)),
                            _ => RefT::Null,
                        };
                        (k, ValSpec::Ref(t))
                    }
                    5 => ("Anchored".into(), ValSpec::Bool(r.chance(1, 2))),
                    6 => ("Count".into(), ValSpec::I32(r.below(100) as i32)),
                    7 => ("Text".into(), ValSpec::Str(spec::stringv(r))),
                    _ => {
                        // every value type except the ones with their own ValSpec
                        let mut ty = *r.pick(spec::ALL_TYPES);
                        if ty == "Ref" || ty == "UniqueId" {
                            ty = "Attributes";
                        }
                        (format!("P{}{}", ty, r.below(3)), ValSpec::G { ty: ty.into(), s: r.below(1 << 30) })
                    }
                };
                if !props.iter().any(|(kk, _)| *kk == k) {
                    props.push((k, v));
                }
            }
            if !uid_mode && r.chance(1, 40) {
                // A property that is merely *named* UniqueId (documented to be ignored
                // by the bookkeeping; from_raw, which documents a panic for it, is
                // not generated for DOMs that hold one).
                props.push(("UniqueId".into(), if r.chance(1, 2) { ValSpec::Str("not-an-id".into()) } else { ValSpec::I32(7) }));
            }
            if uid_mode && r.chance(2, 3) {
                let u = *r.pick(UID_POOL);
                props.push(("UniqueId".into(), ValSpec::Uid(u.0, u.1, u.2)));
            }
            specs.push(Some(NodeSpec { class, name, props, children: vec![] }));
        }
        for i in (1..n).rev() {
            let node = specs[i].take().unwrap();
            specs[parent[i]].as_mut().unwrap().children.insert(0, node);
        }
        specs[0].take().unwrap()
    }

    fn gen_history(&self, r: &mut Rng, property: &str, thorough: bool) -> DomTrace {
        let n_doms = r.range(1, 3) as usize;
        let uid_mode = property == "C12" || r.chance(1, 4);
        let n_ops = if thorough { r.range(3, 40) } else { r.range(3, 24) } as usize;
        let mut model = Model::new(n_doms);
        let mut ops = Vec::new();
        // per-run operation mix
        let mut w: [u32; 12] = [30, 10, 12, 0, 12, 8, 8, 6, 3, 0, 0, 2];
        for x in w.iter_mut() {
            if *x > 0 && r.chance(1, 5) {
                *x = (*x / 4).max(1);
            }
        }
        if property == "C09" {
            w[3] = 2;
        }
        if property == "C11" {
            w[5] *= 3;
            w[6] *= 3;
            w[7] *= 3;
        }
        if property == "C12" {
            w[9] = 6;
            w[10] = 4;
        }
        let mut serial = 1u32;
        let mut attempts = 0;
        while ops.len() < n_ops && attempts < n_ops * 6 {
            attempts += 1;
            if model.nodes.len() > 180 {
                w[0] = 1;
                w[5] = 1;
                w[6] = 1;
                w[7] = 1;
            }
            let alive: Vec<NodeId> = model.nodes.keys().copied().collect();
            let non_root: Vec<NodeId> = alive.iter().copied().filter(|n| !model.roots.contains(n)).collect();
            let pick_dom = |r: &mut Rng| r.below(n_doms as u64) as u8;
            let kind = match r.weighted(&w) {
                0 => {
                    let dom = pick_dom(r);
                    let in_dom = model.dom_nodes(dom as usize);
                    let parent = if r.chance(1, 12) { None } else { Some(*r.pick(&in_dom)) };
                    DKind::Insert { dom, parent, tree: self.gen_builder(r, &model, serial * ID_STRIDE, uid_mode, dom as usize) }
                }
                1 if !non_root.is_empty() => DKind::Destroy { node: *r.pick(&non_root) },
                2 if !non_root.is_empty() => {
                    let node = *r.pick(&non_root);
                    let in_dom = model.dom_nodes(model.nodes[&node].dom);
                    DKind::TransferWithin { node, dest: *r.pick(&in_dom) }
                }
                3 if !non_root.is_empty() => {
                    let node = *r.pick(&non_root);
                    let sub = model.subtree(node);
                    DKind::TransferWithinOwnSubtree { node, dest: *r.pick(&sub) }
                }
                4 if !non_root.is_empty() && n_doms > 1 => {
                    let node = *r.pick(&non_root);
                    let src = model.nodes[&node].dom;
                    let mut dd = pick_dom(r) as usize;
                    if dd == src {
                        dd = (dd + 1) % n_doms;
                    }
                    let in_dest = model.dom_nodes(dd);
                    DKind::Transfer { node, dest_dom: dd as u8, dest: *r.pick(&in_dest) }
                }
                5 if !alive.is_empty() => DKind::CloneWithin { node: *r.pick(&alive) },
                6 if !alive.is_empty() && n_doms > 1 => {
                    let node = *r.pick(&alive);
                    let src = model.nodes[&node].dom;
                    let mut dd = pick_dom(r) as usize;
                    if dd == src {
                        dd = (dd + 1) % n_doms;
                    }
                    DKind::CloneInto { node, dest_dom: dd as u8 }
                }
                7 if !alive.is_empty() && n_doms > 1 => {
                    let first = *r.pick(&alive);
                    let src = model.nodes[&first].dom;
                    let cands: Vec<NodeId> = model.dom_nodes(src);
                    let mut nodes = vec![first];
                    if r.chance(1, 40) {
                        nodes.clear();
                    }
                    let allow_overlap = r.chance(1, 4);
                    for _ in 0..(if nodes.is_empty() { 0 } else { r.below(3) }) {
                        let c = *r.pick(&cands);
                        if allow_overlap || nodes.iter().all(|m| !model.is_in_subtree(*m, c) && !model.is_in_subtree(c, *m)) {
                            nodes.push(c);
                        }
                    }
                    let mut dd = pick_dom(r) as usize;
                    if dd == src {
                        dd = (dd + 1) % n_doms;
                    }
                    DKind::CloneMulti { nodes, dest_dom: dd as u8 }
                }
                8 => {
                    let dom = pick_dom(r);
                    // from_raw documents a panic for a UniqueId property of another type
                    let has_wrong_uid = model.nodes.values().any(|m| m.dom == dom as usize && matches!(m.props.get("UniqueId"), Some(MProp::Val(_))));
                    if has_wrong_uid {
                        continue;
                    }
                    DKind::RawRoundTrip { dom }
                }
                9 => DKind::EncodeDecode { dom: pick_dom(r), fmt: r.below(2) as u8 },
                11 => {
                    let dom = pick_dom(r);
                    DKind::NewDom { dom, tree: self.gen_builder(r, &model, serial * ID_STRIDE, uid_mode, dom as usize) }
                }
                10 => DKind::DecodeDupFile {
                    dom: pick_dom(r),
                    fmt: r.below(2) as u8,
                    n: r.range(2, 4) as u8,
                    uid: r.below(UID_POOL.len() as u64) as u8,
                    layout: r.below(4) as u8,
                },
                _ => continue,
            };
            let op = DOp { serial, kind };
            // Keep the generation-time model in step. Decodes are opaque to it:
            // approximate by keeping only the root (later ops that name lost
            // nodes are skipped at execution time).
            let mut probe = model.clone();
            if probe.apply(&op).is_some() {
                model = probe;
                if let DKind::EncodeDecode { dom, .. } | DKind::DecodeDupFile { dom, .. } = &op.kind {
                    let d = *dom as usize;
                    for n in model.dom_nodes(d) {
                        model.nodes.remove(&n);
                    }
                    // The executor gives the decoded root the first id of this operation.
                    let root = op.serial * ID_STRIDE;
                    model.nodes.insert(root, MNode { dom: d, parent: None, children: vec![], name: "DataModel".into(), class: "DataModel".into(), props: BTreeMap::new() });
                    model.roots[d] = root;
                }
                ops.push(op);
                serial += 1;
            }
        }
        DomTrace { n_doms: n_doms as u8, uid_mode, ops, scripted: None }
    }

    // -- execution -------------------------------------------------------------

    fn resolve(world: &World, t: &RefT) -> Ref {
        match t {
            RefT::Null => Ref::none(),
            RefT::Dangling(v) => spec::dangling_ref(*v),
            RefT::Node(id) => world.ref_of.get(id).copied().unwrap_or_else(|| spec::dangling_ref(900_000 + *id as u64)),
        }
    }

    fn builder_for(world: &mut World, tree: &NodeSpec, base: NodeId) -> InstanceBuilder {
        // Allocate referents for the whole builder first so that Ref
        // properties can point forward.
        let n = tree.count();
        for k in 0..n as u32 {
            let r = Ref::new();
            world.ref_of.insert(base + k, r);
            world.seen_refs.insert(ref_key(r));
        }
        fn build(world: &World, node: &NodeSpec, base: NodeId, next: &mut u32) -> InstanceBuilder {
            let me = world.ref_of[&(base + *next)];
            *next += 1;
            // Every way the builder API offers to say the same thing is used, chosen
            // by a function of the node's position in the trace.
            let style = crate::prng::derive(0x6275696c64, (base + *next) as u64);
            let class = node.class.as_str();
            let mut b = match style % 4 {
                0 => InstanceBuilder::new(class).with_referent(me).with_name(node.name.clone()),
                1 => InstanceBuilder::empty().with_class(class).with_name(node.name.clone()).with_referent(me),
                2 => {
                    let mut b = InstanceBuilder::with_property_capacity("VerifPlaceholder", node.props.len());
                    b.set_class(class);
                    b.set_name(node.name.clone());
                    b.with_referent(me)
                }
                _ if node.name == node.class => InstanceBuilder::new(class).with_referent(me),
                _ => InstanceBuilder::with_property_capacity(class, 0).with_referent(me).with_name(node.name.clone()),
            };
            let vals: Vec<(&str, Variant)> =
                node.props.iter().map(|(k, v)| (k.as_str(), spec::value_of(v, &|t| DomSim::resolve(world, t)))).collect();
            match (style >> 2) % 4 {
                0 => {
                    for (k, val) in vals {
                        b.add_property(k, val);
                    }
                }
                1 => {
                    for (k, val) in vals {
                        b = b.with_property(k, val);
                    }
                }
                2 => b = b.with_properties(vals),
                _ => {
                    let mut first = vals;
                    let rest = first.split_off(first.len() / 2);
                    b = b.with_properties(first);
                    b.add_properties(rest);
                }
            }
            let mut kids: Vec<InstanceBuilder> = Vec::with_capacity(node.children.len());
            for c in &node.children {
                kids.push(build(world, c, base, next));
            }
            match (style >> 4) % 4 {
                0 => {
                    for k in kids {
                        b.add_child(k);
                    }
                }
                1 => {
                    for k in kids {
                        b = b.with_child(k);
                    }
                }
                2 => b = b.with_children(kids),
                _ => {
                    let rest = kids.split_off(kids.len() / 2);
                    b = b.with_children(kids);
                    b.add_children(rest);
                }
            }
            b
        }
        let mut next = 0;
        build(world, tree, base, &mut next)
    }

    fn expected_prop_text(world: &World, p: &MProp) -> String {
        let mut s = String::new();
        let rmap = |r: Ref| r.to_string();
        match p {
            MProp::Val(v) => spec::canon_variant(&mut s, &spec::value_of(v, &|t| DomSim::resolve(world, t)), &rmap),
            MProp::Ref(t) => spec::canon_variant(&mut s, &Variant::Ref(DomSim::resolve(world, t)), &rmap),
            MProp::Uid(a, b, c) => spec::canon_variant(&mut s, &Variant::UniqueId(UniqueId::new(*a, *b, *c)), &rmap),
            MProp::Opaque => s.push_str("<opaque>"),
            MProp::RefAny(list) => {
                s.push_str("ref:<any copy of the multiply-cloned target: ");
                for id in list {
                    s.push_str(&world.ref_of.get(id).map(|r| r.to_string()).unwrap_or_default());
                    s.push(' ');
                }
                s.push('>');
            }
        }
        s
    }

    /// After a clone, a Ref whose target was copied several times is pinned to
    /// whichever copy the real DOM chose (if it chose one of them).
    fn resolve_ref_any(world: &mut World, created: &[NodeId]) {
        for id in created {
            let dom = world.model.nodes[id].dom;
            let r = world.ref_of[id];
            let keys: Vec<String> = world.model.nodes[id].props.iter().filter(|(_, p)| matches!(p, MProp::RefAny(_))).map(|(k, _)| k.clone()).collect();
            for k in keys {
                let cands = match &world.model.nodes[id].props[&k] {
                    MProp::RefAny(c) => c.clone(),
                    _ => continue,
                };
                let real = world.doms[dom].get_by_ref(r).and_then(|i| i.properties.get(&rbx_dom_weak::ustr(&k)).cloned());
                if let Some(Variant::Ref(actual)) = real {
                    if let Some(hit) = cands.iter().find(|c| world.ref_of.get(c) == Some(&actual)) {
                        let hit = *hit;
                        world.model.nodes.get_mut(id).unwrap().props.insert(k, MProp::Ref(RefT::Node(hit)));
                    }
                }
            }
        }
    }

    fn real_prop_text(v: &Variant) -> String {
        let mut s = String::new();
        spec::canon_variant(&mut s, v, &|r: Ref| r.to_string());
        s
    }

    /// C10: real == model, for every DOM.
    fn compare_with_model(world: &World, uid_mode: bool, only: Option<&BTreeSet<NodeId>>, skip: Option<&BTreeSet<NodeId>>) -> Option<String> {
        for (id, m) in &world.model.nodes {
            if only.map(|o| !o.contains(id)).unwrap_or(false) || skip.map(|o| o.contains(id)).unwrap_or(false) {
                continue;
            }
            let r = match world.ref_of.get(id) {
                Some(r) => *r,
                None => return Some(format!("node {} has no referent bound", id)),
            };
            let dom = &world.doms[m.dom];
            let inst = match dom.get_by_ref(r) {
                Some(i) => i,
                None => return Some(format!("node {} ({}) should exist in dom {} but get_by_ref is None", id, m.name, m.dom)),
            };
            if inst.referent() != r {
                return Some(format!("node {}: referent() differs from its key", id));
            }
            let want_parent = m.parent.map(|p| world.ref_of[&p]).unwrap_or_else(Ref::none);
            if inst.parent() != want_parent {
                return Some(format!("node {} ({}): parent differs from the model", id, m.name));
            }
            let want_children: Vec<Ref> = m.children.iter().map(|c| world.ref_of[c]).collect();
            if inst.children() != want_children.as_slice() {
                return Some(format!(
                    "node {} ({}): children are {:?} but the model says {:?}",
                    id,
                    m.name,
                    inst.children().iter().map(|c| world.name_of(*c)).collect::<Vec<_>>(),
                    m.children.iter().map(|c| world.model.nodes[c].name.clone()).collect::<Vec<_>>()
                ));
            }
            if inst.name != m.name {
                return Some(format!("node {}: name {:?} but the model says {:?}", id, inst.name, m.name));
            }
            if inst.class.as_str() != m.class {
                return Some(format!("node {}: class {:?} but the model says {:?}", id, inst.class.as_str(), m.class));
            }
            let mut real_keys: Vec<&str> = inst.properties.keys().map(|k| k.as_str()).collect();
            real_keys.sort();
            let model_keys: Vec<&str> = m.props.keys().map(|k| k.as_str()).collect();
            if real_keys != model_keys {
                return Some(format!("node {} ({}): property names {:?} but the model says {:?}", id, m.name, real_keys, model_keys));
            }
            for (k, p) in &m.props {
                if (uid_mode && k == "UniqueId") || matches!(p, MProp::Opaque) {
                    continue;
                }
                let real = inst.properties.get(&rbx_dom_weak::ustr(k)).unwrap();
                let a = Self::real_prop_text(real);
                let b = Self::expected_prop_text(world, p);
                if a != b {
                    return Some(format!("node {} ({}): property {} is {} but the model says {}", id, m.name, k, a, b));
                }
            }
        }
        None
    }

    /// C09: well-formed forest, from the real DOMs alone (public API only).
    fn check_forest(world: &World, dead: &[(usize, Ref)]) -> Option<(String, String)> {
        for (di, dom) in world.doms.iter().enumerate() {
            let root = dom.root_ref();
            match dom.get_by_ref(root) {
                None => return Some(("forest|root-missing".into(), format!("dom {}: root does not resolve", di))),
                Some(r) => {
                    if r.parent().is_some() {
                        return Some(("forest|root-has-parent".into(), format!("dom {}: root has a parent", di)));
                    }
                }
            }
            let present: Vec<Ref> = world
                .ref_of
                .values()
                .copied()
                .chain(std::iter::once(root))
                .filter(|r| dom.get_by_ref(*r).is_some())
                .collect();
            for &r in &present {
                let inst = dom.get_by_ref(r).unwrap();
                let mut seen = BTreeSet::new();
                for c in inst.children() {
                    if !seen.insert(ref_key(*c)) {
                        return Some(("forest|child-listed-twice".into(), format!("dom {}: {} lists a child twice", di, inst.name)));
                    }
                    match dom.get_by_ref(*c) {
                        None => return Some(("forest|child-does-not-exist".into(), format!("dom {}: {} lists a child that does not exist", di, inst.name))),
                        Some(ci) => {
                            if ci.parent() != r {
                                return Some(("forest|child-names-other-parent".into(), format!("dom {}: {} lists {} as a child, but that instance names another parent", di, inst.name, ci.name)));
                            }
                        }
                    }
                }
                let p = inst.parent();
                if p.is_some() {
                    match dom.get_by_ref(p) {
                        None => return Some(("forest|parent-does-not-exist".into(), format!("dom {}: parent of {} does not exist", di, inst.name))),
                        Some(pi) => {
                            let n = pi.children().iter().filter(|c| **c == r).count();
                            if n != 1 {
                                return Some(("forest|not-listed-exactly-once-by-parent".into(), format!("dom {}: {} is listed {} times by its parent {}", di, inst.name, n, pi.name)));
                            }
                        }
                    }
                }
                // ancestor chain terminates
                let mut cur = p;
                let mut steps = 0;
                while cur.is_some() {
                    if cur == r {
                        return Some(("forest|instance-is-its-own-ancestor".into(), format!("dom {}: {} is its own ancestor", di, inst.name)));
                    }
                    steps += 1;
                    if steps > present.len() + 2 {
                        return Some(("forest|ancestor-cycle".into(), format!("dom {}: ancestor chain of {} does not terminate", di, inst.name)));
                    }
                    cur = match dom.get_by_ref(cur) {
                        Some(i) => i.parent(),
                        None => break,
                    };
                }
            }
            // descendants iterator from the root and from every parentless instance
            let mut tops: Vec<Ref> = present.iter().copied().filter(|r| dom.get_by_ref(*r).unwrap().parent().is_none()).take(6).collect();
            // ...and from a few inner instances (first, middle, last of those present).
            if present.len() > 2 {
                for pick in [0, present.len() / 2, present.len() - 1] {
                    if !tops.contains(&present[pick]) {
                        tops.push(present[pick]);
                    }
                }
            }
            for t in tops.into_iter() {
                let reach = real_subtree(dom, t);
                let reach_set: BTreeSet<u128> = reach.iter().map(|r| ref_key(*r)).collect();
                let mut yielded: BTreeSet<u128> = BTreeSet::new();
                let mut count = 0usize;
                for inst in dom.descendants_of(t) {
                    count += 1;
                    if count > reach.len() + 5 {
                        return Some(("descendants|yields-too-many".into(), format!("dom {}: descendants_of yields more than the {} reachable instances", di, reach.len())));
                    }
                    let k = ref_key(inst.referent());
                    if inst.referent() != t && !yielded.contains(&ref_key(inst.parent())) {
                        return Some(("descendants|child-before-parent".into(), format!("dom {}: descendants_of yielded {} before its parent", di, inst.name)));
                    }
                    if !yielded.insert(k) {
                        return Some(("descendants|yields-twice".into(), format!("dom {}: descendants_of yielded {} twice", di, inst.name)));
                    }
                }
                if yielded != reach_set {
                    return Some(("descendants|misses-reachable".into(), format!("dom {}: descendants_of yielded {} instances, {} are reachable", di, yielded.len(), reach_set.len())));
                }
            }
        }
        for (di, r) in dead {
            if world.doms[*di].get_by_ref(*r).is_some() {
                return Some(("forest|removed-instance-still-resolves".into(), format!("dom {}: an instance that was destroyed or transferred away can still be looked up", di)));
            }
        }
        None
    }

    /// C11, judged on the real DOMs alone: every returned copy is parentless,
    /// uses only referents that did not exist before, matches its original in
    /// shape, order, names, classes and values, and every Ref property follows
    /// the three-way rule evaluated against the destination DOM.
    fn check_clone_real(world: &World, src: usize, dest: usize, orig_roots: &[Ref], copies: &[Ref], uid_mode: bool, ctx: &mut RunCtx) -> Option<(String, String)> {
        if orig_roots.len() != copies.len() {
            return Some(("clone|wrong-number-of-roots".into(), format!("returned {} referents for {} subtrees", copies.len(), orig_roots.len())));
        }
        let sdom = &world.doms[src];
        let ddom = &world.doms[dest];
        let mut pairs: Vec<(Ref, Ref)> = Vec::new();
        let mut map: BTreeMap<u128, Vec<Ref>> = BTreeMap::new();
        for (o_root, c_root) in orig_roots.iter().zip(copies.iter()) {
            match ddom.get_by_ref(*c_root) {
                None => return Some(("clone|copy-missing-from-destination".into(), "the returned referent cannot be looked up in the destination".into())),
                Some(i) => {
                    if i.parent().is_some() {
                        return Some(("clone|root-has-parent".into(), "the returned copy has a parent".into()));
                    }
                }
            }
            let mut stack = vec![(*o_root, *c_root)];
            let mut guard = 0;
            while let Some((o, c)) = stack.pop() {
                guard += 1;
                if guard > 100_000 {
                    return Some(("clone|shape-differs".into(), "the copy does not terminate".into()));
                }
                let oi = match sdom.get_by_ref(o) {
                    Some(i) => i,
                    None => return None, // source itself is broken: not this oracle's business
                };
                let ci = match ddom.get_by_ref(c) {
                    Some(i) => i,
                    None => return Some(("clone|copy-missing-from-destination".into(), format!("a copy below {} cannot be looked up in the destination", oi.name))),
                };
                if world.seen_refs.contains(&ref_key(c)) {
                    return Some(("clone|referent-not-fresh".into(), format!("the copy of {} re-uses a referent that already existed", oi.name)));
                }
                if oi.name != ci.name || oi.class != ci.class {
                    return Some(("clone|name-or-class-differs".into(), format!("copy is {:?}/{:?}, original {:?}/{:?}", ci.name, ci.class.as_str(), oi.name, oi.class.as_str())));
                }
                if oi.children().len() != ci.children().len() {
                    return Some(("clone|shape-differs".into(), format!("the copy of {} has {} children, the original has {}", oi.name, ci.children().len(), oi.children().len())));
                }
                pairs.push((o, c));
                map.entry(ref_key(o)).or_default().push(c);
                for (oc, cc) in oi.children().iter().zip(ci.children().iter()).rev() {
                    stack.push((*oc, *cc));
                }
            }
        }
        for (o, c) in &pairs {
            let oi = sdom.get_by_ref(*o).unwrap();
            let ci = ddom.get_by_ref(*c).unwrap();
            let mut ok: Vec<&str> = oi.properties.keys().map(|k| k.as_str()).collect();
            let mut ck: Vec<&str> = ci.properties.keys().map(|k| k.as_str()).collect();
            ok.sort();
            ck.sort();
            if ok != ck {
                return Some(("clone|property-set-differs".into(), format!("copy of {} has properties {:?}, original {:?}", oi.name, ck, ok)));
            }
            for (k, ov) in oi.properties.iter() {
                if uid_mode && k.as_str() == "UniqueId" {
                    continue;
                }
                let cv = ci.properties.get(k).unwrap();
                if let Variant::Ref(v) = ov {
                    let got = match cv {
                        Variant::Ref(g) => *g,
                        _ => return Some(("clone|property-value-differs".into(), format!("property {} of the copy of {} is no longer a Ref", k, oi.name))),
                    };
                    if v.is_none() {
                        if got.is_some() {
                            return Some(("clone|ref-should-be-null".into(), format!("null Ref {} of {} became {}", k, oi.name, got)));
                        }
                    } else if let Some(cands) = map.get(&ref_key(*v)) {
                        ctx.count("probe:clone_ref_inside_clone_set");
                        if !cands.contains(&got) {
                            return Some(("clone|ref-into-cloned-set-not-rewritten".into(), format!("property {} of the copy of {} is {} but should point at the copy of its target ({})", k, oi.name, got, cands.iter().map(|r| r.to_string()).collect::<Vec<_>>().join(" or "))));
                        }
                    } else if ddom.get_by_ref(*v).is_some() {
                        ctx.count("probe:clone_ref_to_instance_in_destination_outside_clone_set");
                        if got != *v {
                            return Some(("clone|ref-to-instance-in-destination-not-kept".into(), format!("property {} of the copy of {} is {} but the destination contains its target {}, so it should be kept", k, oi.name, got, v)));
                        }
                    } else {
                        ctx.count("probe:clone_ref_to_instance_absent_from_destination");
                        if got.is_some() {
                            return Some(("clone|ref-should-be-null".into(), format!("property {} of the copy of {} is {} but its target does not exist in the destination, so it should be null", k, oi.name, got)));
                        }
                    }
                } else {
                    let a = Self::real_prop_text(ov);
                    let b = Self::real_prop_text(cv);
                    if a != b {
                        return Some(("clone|property-value-differs".into(), format!("property {} of the copy of {} is {} but the original has {}", k, oi.name, b, a)));
                    }
                }
            }
        }
        None
    }

    /// Rebuilds the model of one DOM slot from the real DOM (after a decode).
    fn rebuild_slot(world: &mut World, d: usize, base: NodeId, origin: &str) -> Vec<NodeId> {
        let old: Vec<NodeId> = world.model.dom_nodes(d);
        for n in old {
            world.model.nodes.remove(&n);
        }
        let dom = &world.doms[d];
        let order = real_subtree(dom, dom.root_ref());
        let mut id_of: BTreeMap<u128, NodeId> = BTreeMap::new();
        let mut created = Vec::new();
        for (k, r) in order.iter().enumerate() {
            // Node ids are never re-bound to another referent (Ref properties of
            // older instances may still name the old root), so the new root gets a
            // fresh id too.
            let id = base + k as u32;
            id_of.insert(ref_key(*r), id);
            world.ref_of.insert(id, *r);
            world.seen_refs.insert(ref_key(*r));
        }
        for r in &order {
            let inst = dom.get_by_ref(*r).unwrap();
            let id = id_of[&ref_key(*r)];
            let mut props = BTreeMap::new();
            for (k, v) in inst.properties.iter() {
                let p = match v {
                    Variant::UniqueId(u) if k.as_str() == "UniqueId" => MProp::Uid(u.index(), u.time(), u.random()),
                    // Other decoded values are opaque: their fidelity is C01/C02's question.
                    _ => MProp::Opaque,
                };
                props.insert(k.to_string(), p);
            }
            world.model.nodes.insert(
                id,
                MNode {
                    dom: d,
                    parent: if inst.parent().is_some() { id_of.get(&ref_key(inst.parent())).copied() } else { None },
                    children: inst.children().iter().filter_map(|c| id_of.get(&ref_key(*c)).copied()).collect(),
                    name: inst.name.clone(),
                    class: inst.class.to_string(),
                    props,
                },
            );
            if inst.parent().is_some() {
                created.push(id);
            }
        }
        world.model.origin[d] = origin.to_string();
        world.model.roots[d] = base;
        created
    }

    fn exec(&self, t: &DomTrace, ctx: &mut RunCtx) {
        let prop = ctx.property.clone();
        let n_doms = t.n_doms.max(1) as usize;
        let mut world = World {
            doms: (0..n_doms).map(|_| WeakDom::new(InstanceBuilder::new("DataModel"))).collect(),
            model: Model::new(n_doms),
            ref_of: BTreeMap::new(),
            seen_refs: BTreeSet::new(),
            generated_uids: BTreeSet::new(),
            clone_created: BTreeSet::new(),
        };
        for d in 0..n_doms {
            let r = world.doms[d].root_ref();
            world.ref_of.insert(d as NodeId, r);
            world.seen_refs.insert(ref_key(r));
        }
        let mut kinds_seq = Digest::new();
        let mut n_exec = 0usize;
        let mut cross = false;

        for op in &t.ops {
            let base = op.serial * ID_STRIDE;
            // Preconditions are judged on the model.
            let mut probe = world.model.clone();
            let eff = match probe.apply(op) {
                Some(e) => e,
                None => {
                    ctx.count("ops_skipped_outside_preconditions");
                    continue;
                }
            };
            // ...and must also hold on the real DOMs (they can differ if an
            // oracle that is not enabled for this property has been broken).
            let real_ok = match &op.kind {
                DKind::Insert { dom, parent, .. } => parent.map(|p| world.doms[*dom as usize].get_by_ref(world.ref_of[&p]).is_some()).unwrap_or(true),
                DKind::Destroy { node } => world.doms[world.model.nodes[node].dom].get_by_ref(world.ref_of[node]).is_some(),
                DKind::TransferWithin { node, dest } | DKind::TransferWithinOwnSubtree { node, dest } => {
                    let d = &world.doms[world.model.nodes[node].dom];
                    d.get_by_ref(world.ref_of[node]).is_some() && d.get_by_ref(world.ref_of[dest]).is_some()
                }
                DKind::Transfer { node, dest_dom, dest } => {
                    world.doms[world.model.nodes[node].dom].get_by_ref(world.ref_of[node]).is_some()
                        && world.doms[*dest_dom as usize].get_by_ref(world.ref_of[dest]).is_some()
                }
                DKind::CloneWithin { node } | DKind::CloneInto { node, .. } => world.doms[world.model.nodes[node].dom].get_by_ref(world.ref_of[node]).is_some(),
                DKind::CloneMulti { nodes, .. } => nodes.iter().all(|n| world.doms[world.model.nodes[n].dom].get_by_ref(world.ref_of[n]).is_some()),
                _ => true,
            };
            if !real_ok {
                ctx.count("aborted_histories");
                if prop == "C10" {
                    ctx.violate("effect|instance-the-model-expects-is-missing", format!("before op {:?}: an argument instance does not exist in the real DOM", kind_name(&op.kind)));
                }
                return;
            }

            // Real-side snapshot needed by the oracles.
            let src_dom_idx = match &op.kind {
                DKind::Destroy { node } | DKind::Transfer { node, .. } | DKind::CloneWithin { node } | DKind::CloneInto { node, .. } => Some(world.model.nodes[node].dom),
                DKind::CloneMulti { nodes, dest_dom } => Some(nodes.first().map(|n| world.model.nodes[n].dom).unwrap_or((*dest_dom as usize + 1) % n_doms)),
                _ => None,
            };
            let mut dead: Vec<(usize, Ref)> = Vec::new();
            if let DKind::Destroy { node } | DKind::Transfer { node, .. } = &op.kind {
                let d = src_dom_idx.unwrap();
                for r in real_subtree(&world.doms[d], world.ref_of[node]) {
                    dead.push((d, r));
                }
            }
            let clone_src_before: Option<String> = match &op.kind {
                DKind::CloneInto { .. } | DKind::CloneMulti { .. } | DKind::CloneWithin { .. } if prop == "C11" => Some(spec::canon_dom(&world.doms[src_dom_idx.unwrap()])),
                _ => None,
            };
            // uid bookkeeping: ids present in each DOM before the op (by model node)
            let uid_before: BTreeMap<NodeId, Option<(u32, u32, i64)>> = if t.uid_mode {
                world.model.nodes.iter().map(|(id, m)| (*id, real_uid(&world.doms[m.dom], world.ref_of[id]))).collect()
            } else {
                BTreeMap::new()
            };

            // ---- perform the real operation ----
            ctx.evals += 1;
            crate::engine::tick();
            n_exec += 1;
            ctx.count(&format!("op:{}", kind_name(&op.kind)));
            kinds_seq.str(kind_name(&op.kind));
            let mut returned: Vec<Ref> = Vec::new();
            let result = {
                let world_ref = &mut world;
                let returned_ref = &mut returned;
                crate::panic::catch(move || match &op.kind {
                    DKind::Insert { dom, parent, tree } => {
                        let b = DomSim::builder_for(world_ref, tree, base);
                        let want = b.referent();
                        let p = parent.map(|p| world_ref.ref_of[&p]).unwrap_or_else(Ref::none);
                        let got = world_ref.doms[*dom as usize].insert(p, b);
                        returned_ref.push(got);
                        returned_ref.push(want);
                    }
                    DKind::Destroy { node } => {
                        let d = world_ref.model.nodes[node].dom;
                        let r = world_ref.ref_of[node];
                        world_ref.doms[d].destroy(r);
                    }
                    DKind::TransferWithin { node, dest } | DKind::TransferWithinOwnSubtree { node, dest } => {
                        let d = world_ref.model.nodes[node].dom;
                        let (a, b) = (world_ref.ref_of[node], world_ref.ref_of[dest]);
                        world_ref.doms[d].transfer_within(a, b);
                    }
                    DKind::Transfer { node, dest_dom, dest } => {
                        let s = world_ref.model.nodes[node].dom;
                        let dd = *dest_dom as usize;
                        let (a, b) = (world_ref.ref_of[node], world_ref.ref_of[dest]);
                        let (src, dst) = two_mut(&mut world_ref.doms, s, dd);
                        src.transfer(a, dst, b);
                    }
                    DKind::CloneWithin { node } => {
                        let d = world_ref.model.nodes[node].dom;
                        let r = world_ref.ref_of[node];
                        returned_ref.push(world_ref.doms[d].clone_within(r));
                    }
                    DKind::CloneInto { node, dest_dom } => {
                        let s = world_ref.model.nodes[node].dom;
                        let r = world_ref.ref_of[node];
                        let (src, dst) = two_mut(&mut world_ref.doms, s, *dest_dom as usize);
                        returned_ref.push(src.clone_into_external(r, dst));
                    }
                    DKind::CloneMulti { nodes, dest_dom } => {
                        let s = nodes.first().map(|n| world_ref.model.nodes[n].dom).unwrap_or((*dest_dom as usize + 1) % world_ref.doms.len());
                        let refs: Vec<Ref> = nodes.iter().map(|n| world_ref.ref_of[n]).collect();
                        let (src, dst) = two_mut(&mut world_ref.doms, s, *dest_dom as usize);
                        returned_ref.extend(src.clone_multiple_into_external(&refs, dst));
                    }
                    DKind::NewDom { dom, tree } => {
                        let b = DomSim::builder_for(world_ref, tree, base);
                        world_ref.doms[*dom as usize] = WeakDom::new(b);
                    }
                    DKind::RawRoundTrip { dom } => {
                        let d = *dom as usize;
                        let taken = std::mem::take(&mut world_ref.doms[d]);
                        let (root, map) = taken.into_raw();
                        world_ref.doms[d] = WeakDom::from_raw(root, map);
                    }
                    DKind::EncodeDecode { dom, fmt } => {
                        let d = *dom as usize;
                        let roots: Vec<Ref> = world_ref.doms[d].root().children().to_vec();
                        let mut buf = Vec::new();
                        let decoded = if *fmt == 0 {
                            rbx_binary::to_writer(&mut buf, &world_ref.doms[d], &roots).map_err(|e| e.to_string())
                                .and_then(|_| rbx_binary::from_reader(buf.as_slice()).map_err(|e| e.to_string()))
                        } else {
                            rbx_xml::to_writer_default(&mut buf, &world_ref.doms[d], &roots).map_err(|e| e.to_string())
                                .and_then(|_| rbx_xml::from_reader_default(buf.as_slice()).map_err(|e| e.to_string()))
                        };
                        if let Ok(new_dom) = decoded {
                            world_ref.doms[d] = new_dom;
                            returned_ref.push(Ref::none());
                        }
                    }
                    DKind::DecodeDupFile { dom, fmt, n, uid, layout } => {
                        let d = *dom as usize;
                        let u = UID_POOL[*uid as usize % UID_POOL.len()];
                        let mut tmp = WeakDom::new(InstanceBuilder::new("DataModel"));
                        let root = tmp.root_ref();
                        let mut made = Vec::new();
                        let mut roots = Vec::new();
                        let mut parent = root;
                        for i in 0..*n {
                            let class = if *layout == 1 { ["Folder", "Model", "Part"][i as usize % 3] } else { "Folder" };
                            let r = tmp.insert(parent, InstanceBuilder::new(class).with_name(format!("dup{}", i)));
                            if parent == root {
                                roots.push(r);
                            }
                            if *layout == 2 {
                                parent = r;
                            }
                            made.push(r);
                        }
                        if *layout == 1 {
                            roots.push(tmp.insert(root, InstanceBuilder::new("Folder").with_name("no-id")));
                        }
                        // Direct field mutation is the only way to obtain a file with duplicate ids.
                        for r in &made {
                            tmp.get_by_ref_mut(*r).unwrap().properties.insert("UniqueId".into(), Variant::UniqueId(UniqueId::new(u.0, u.1, u.2)));
                        }
                        let mut buf = Vec::new();
                        let made = roots;
                        let decoded = if *fmt == 0 && *layout == 3 {
                            rbx_binary::Serializer::new()
                                .compression_type(rbx_binary::CompressionType::None)
                                .serialize(&mut buf, &tmp, &made)
                                .map_err(|e| e.to_string())
                                .and_then(|_| {
                                    let file = with_second_unique_id_chunk(&buf).unwrap_or(buf.clone());
                                    rbx_binary::from_reader(file.as_slice()).map_err(|e| e.to_string())
                                })
                        } else if *fmt == 0 {
                            rbx_binary::to_writer(&mut buf, &tmp, &made).map_err(|e| e.to_string())
                                .and_then(|_| rbx_binary::from_reader(buf.as_slice()).map_err(|e| e.to_string()))
                        } else {
                            rbx_xml::to_writer_default(&mut buf, &tmp, &made).map_err(|e| e.to_string())
                                .and_then(|_| rbx_xml::from_reader_default(buf.as_slice()).map_err(|e| e.to_string()))
                        };
                        if let Ok(new_dom) = decoded {
                            world_ref.doms[d] = new_dom;
                            returned_ref.push(Ref::none());
                        }
                    }
                })
            };

            if let Err(p) = result {
                ctx.count("aborted_histories");
                match (&op.kind, prop.as_str()) {
                    (DKind::TransferWithinOwnSubtree { .. }, _) => {
                        // Refusing the call is a legal answer; the history ends here
                        // because the DOM may have been left half-modified.
                        ctx.count("probe:transfer_within_into_own_subtree_refused");
                    }
                    (DKind::EncodeDecode { .. } | DKind::DecodeDupFile { .. }, _) => {
                        ctx.count("codec_panicked_in_history(not judged here)");
                    }
                    (DKind::RawRoundTrip { .. }, _) => {
                        // from_raw documents a panic for a map that holds duplicate
                        // UniqueIds; a DOM in that state is C12's business.
                        ctx.count("raw_round_trip_refused(not judged here)");
                    }
                    (_, "C10") => ctx.violate(p.key.clone(), format!("{} called within its preconditions panicked at {}: {}", kind_name(&op.kind), p.location, p.message)),
                    _ => {}
                }
                return;
            }

            // Decodes replace a slot: rebuild the model from what came out.
            if let DKind::EncodeDecode { dom, fmt } | DKind::DecodeDupFile { dom, fmt, .. } = &op.kind {
                if returned.is_empty() {
                    ctx.count("codec_rejected_in_history");
                    continue;
                }
                let d = *dom as usize;
                let origin = if *fmt == 0 { "decoded:binary" } else { "decoded:xml" };
                // Track ids generated by the decoder's inserts.
                let created = Self::rebuild_slot(&mut world, d, base, origin);
                ctx.count(&format!("fault_fired:slot-replaced-by-{}", origin));
                if t.uid_mode {
                    let mut seen: BTreeMap<(u32, u32, i64), NodeId> = BTreeMap::new();
                    for id in world.model.dom_nodes(d) {
                        if let Some(MProp::Uid(a, b, c)) = world.model.nodes[&id].props.get("UniqueId") {
                            if let Some(prev) = seen.insert((*a, *b, *c), id) {
                                ctx.violate(
                                    uid_key("duplicate-in-dom", &op.kind, origin),
                                    format!("after decoding, instances {} and {} of dom {} both hold UniqueId {:?}", world.model.nodes[&prev].name, world.model.nodes[&id].name, d, (a, b, c)),
                                );
                                return;
                            }
                        }
                    }
                }
                let _ = created;
                continue;
            }

            // ---- model step ----
            world.model = probe;
            let origins: Vec<String> = world.model.origin.clone();
            let origin_of = |d: usize| origins[d].clone();

            // C11 oracle (real copy against real original), then bind the
            // referents of the copies to model nodes by parallel traversal.
            if !eff.clone_roots.is_empty() {
                cross = true;
                let dest = eff.entering.as_ref().unwrap().0;
                let src = src_dom_idx.unwrap();
                let orig_ids: Vec<NodeId> = match &op.kind {
                    DKind::CloneWithin { node } | DKind::CloneInto { node, .. } => vec![*node],
                    DKind::CloneMulti { nodes, .. } => nodes.clone(),
                    _ => vec![],
                };
                let orig_refs: Vec<Ref> = orig_ids.iter().map(|n| world.ref_of[n]).collect();
                if prop == "C11" {
                    if let Some((key, msg)) = Self::check_clone_real(&world, src, dest, &orig_refs, &returned, t.uid_mode, ctx) {
                        ctx.violate(key, format!("{}: {}", kind_name(&op.kind), msg));
                        return;
                    }
                    if let Some(before) = &clone_src_before {
                        if src != dest && *before != spec::canon_dom(&world.doms[src]) {
                            ctx.violate("clone|source-modified", format!("{} changed the source DOM", kind_name(&op.kind)));
                            return;
                        }
                    }
                }
                // Binding. A mismatch here (with the C11 oracle satisfied or not
                // enabled) means the model and the real DOM have drifted apart
                // because of something this check does not judge: the history
                // ends without a verdict.
                if returned.len() != eff.clone_roots.len() {
                    ctx.count("aborted_histories");
                    return;
                }
                let mut bound = BTreeSet::new();
                for (root_id, root_ref) in eff.clone_roots.iter().zip(returned.iter()) {
                    // A returned referent that is not a parentless root, or a copy
                    // reached twice, is C11's business: no verdict from here.
                    if world.doms[dest].get_by_ref(*root_ref).map_or(true, |i| i.parent().is_some()) {
                        ctx.count("aborted_histories");
                        ctx.count("histories_ended_by_malformed_clone_result(C11's business)");
                        return;
                    }
                    let mut stack = vec![(*root_id, *root_ref)];
                    while let Some((mid, rref)) = stack.pop() {
                        if !bound.insert(ref_key(rref)) {
                            ctx.count("aborted_histories");
                            ctx.count("histories_ended_by_malformed_clone_result(C11's business)");
                            return;
                        }
                        let inst = match world.doms[dest].get_by_ref(rref) {
                            Some(i) => i,
                            None => {
                                ctx.count("aborted_histories");
                                return;
                            }
                        };
                        world.ref_of.insert(mid, rref);
                        let m = &world.model.nodes[&mid];
                        if inst.children().len() != m.children.len() {
                            ctx.count("aborted_histories");
                            return;
                        }
                        for (mc, rc) in m.children.iter().zip(inst.children().iter()).rev() {
                            stack.push((*mc, *rc));
                        }
                    }
                }
                for id in &eff.created {
                    let r = world.ref_of[id];
                    world.seen_refs.insert(ref_key(r));
                    world.clone_created.insert(*id);
                }
                Self::resolve_ref_any(&mut world, &eff.created);
            }
            if prop == "C11" || prop == "C12" {
                // The model only supplies arguments and bookkeeping here. If it has
                // drifted from the real DOMs (something C10 would report), stop
                // without a verdict instead of blaming this property.
                if let Some(msg) = Self::compare_with_model(&world, t.uid_mode || prop == "C12", None, None) {
                    if std::env::var("RBXSIM_DEBUG_DRIFT").is_ok() {
                        eprintln!("DRIFT after {}: {}", kind_name(&op.kind), msg);
                    }
                    ctx.count("aborted_histories");
                    ctx.count("histories_ended_by_model_drift(C10's business)");
                    return;
                }
            }
            if let DKind::CloneMulti { nodes, .. } = &op.kind {
                if nodes.is_empty() && !returned.is_empty() && prop == "C11" {
                    ctx.violate("clone|wrong-number-of-roots", format!("cloning an empty list returned {} referents", returned.len()));
                    return;
                }
            }
            if let DKind::Insert { .. } = &op.kind {
                if prop == "C10" && returned.len() == 2 && returned[0] != returned[1] {
                    ctx.violate("effect|insert-returns-other-referent", "insert returned a referent other than the builder's".to_string());
                    return;
                }
            }
            if matches!(op.kind, DKind::Transfer { .. }) {
                cross = true;
                let n = eff.removed.len();
                if n >= 1 {
                    ctx.count("probe:transfer_executed");
                }
            }

            // ---- C12: UniqueId oracle ----
            if t.uid_mode {
                if let Some((dd, entering)) = &eff.entering {
                    let enter_set: BTreeSet<NodeId> = entering.iter().copied().collect();
                    // ids held in the destination before the op by non-entering nodes
                    let mut present: BTreeSet<(u32, u32, i64)> = BTreeSet::new();
                    for (id, m) in &world.model.nodes {
                        if m.dom == *dd && !enter_set.contains(id) {
                            if let Some(Some(u)) = uid_before.get(id) {
                                present.insert(*u);
                            }
                        }
                    }
                    // what each entering node carried before
                    let mut carried: BTreeMap<NodeId, Option<(u32, u32, i64)>> = BTreeMap::new();
                    for id in entering {
                        let before = if let Some(b) = uid_before.get(id) {
                            *b
                        } else {
                            // created by this op: what the builder / the original carried
                            match world.model.nodes[id].props.get("UniqueId") {
                                Some(MProp::Uid(a, b, c)) => Some((*a, *b, *c)),
                                _ => None,
                            }
                        };
                        carried.insert(*id, before);
                    }
                    let mut kept: BTreeMap<(u32, u32, i64), usize> = BTreeMap::new();
                    let mut fresh_now: BTreeSet<(u32, u32, i64)> = BTreeSet::new();
                    for id in entering {
                        let now = real_uid(&world.doms[*dd], world.ref_of[id]);
                        let was = carried[id];
                        let org = origin_of(*dd);
                        match (was, now) {
                            (None, None) => {}
                            (None, Some(_)) | (Some(_), None) => {
                                if prop == "C12" || prop == "C10" {
                                    let key = if prop == "C10" { format!("effect|unique-id-property-appeared-or-vanished|after={}", kind_name(&op.kind)) } else { uid_key("property-appeared-or-vanished", &op.kind, &org) };
                                    ctx.violate(key, format!("{}: UniqueId was {:?}, is now {:?}", world.model.nodes[id].name, was, now));
                                    return;
                                }
                            }
                            (Some(w), Some(n)) => {
                                if w == n {
                                    *kept.entry(w).or_insert(0) += 1;
                                    if present.contains(&w) && prop == "C12" {
                                        ctx.violate(uid_key("kept-despite-collision", &op.kind, &org), format!("{} entered dom {} keeping UniqueId {:?}, which an instance there already holds", world.model.nodes[id].name, dd, w));
                                        return;
                                    }
                                } else {
                                    ctx.count("probe:uid_regenerated");
                                    if prop == "C12" {
                                        if present.contains(&n) || !fresh_now.insert(n) || world.generated_uids.contains(&n) || UID_POOL.contains(&n) {
                                            ctx.violate(uid_key("regenerated-id-not-fresh", &op.kind, &org), format!("{} received UniqueId {:?}, which is not fresh", world.model.nodes[id].name, n));
                                            return;
                                        }
                                    }
                                    world.generated_uids.insert(n);
                                }
                            }
                        }
                    }
                    if prop == "C12" || prop == "C10" {
                        let org = origin_of(*dd);
                        let mut carried_vals: BTreeMap<(u32, u32, i64), usize> = BTreeMap::new();
                        for v in carried.values().flatten() {
                            *carried_vals.entry(*v).or_insert(0) += 1;
                        }
                        for (v, holders) in carried_vals {
                            let k = kept.get(&v).copied().unwrap_or(0);
                            if !present.contains(&v) && k != 1 {
                                let what = if k == 0 { "replaced-without-collision" } else { "duplicate-kept-among-entering" };
                                if prop == "C10" {
                                    if k == 0 {
                                        // "keeps its ... properties": a UniqueId may only change on a collision
                                        ctx.violate(format!("effect|unique-id-replaced-without-collision|after={}", kind_name(&op.kind)), format!("{} instance(s) entered dom {} carrying UniqueId {:?}, no instance there held it, yet none of them kept it", holders, dd, v));
                                        return;
                                    }
                                    continue;
                                }
                                ctx.violate(uid_key(what, &op.kind, &org), format!("{} instance(s) entered dom {} carrying UniqueId {:?}, no instance there held it, and {} of them kept it (exactly one should)", holders, dd, v, k));
                                return;
                            }
                        }
                    }
                    // the model follows the real ids
                    for id in entering {
                        if let Some(u) = real_uid(&world.doms[*dd], world.ref_of[id]) {
                            world.model.nodes.get_mut(id).unwrap().props.insert("UniqueId".into(), MProp::Uid(u.0, u.1, u.2));
                        }
                    }
                }
                if prop == "C12" || prop == "C10" {
                    // nobody else changed, and (C12) no duplicates anywhere
                    let entering_set: BTreeSet<NodeId> = eff.entering.as_ref().map(|e| e.1.iter().copied().collect()).unwrap_or_default();
                    let mut per_dom: BTreeMap<(usize, (u32, u32, i64)), NodeId> = BTreeMap::new();
                    for (id, m) in &world.model.nodes {
                        let now = real_uid(&world.doms[m.dom], world.ref_of[id]);
                        if !entering_set.contains(id) {
                            if let Some(b) = uid_before.get(id) {
                                if *b != now {
                                    let key = if prop == "C10" { format!("effect|unique-id-of-untouched-instance-changed|after={}", kind_name(&op.kind)) } else { format!("uid|changed-without-entering-a-dom|after={}", kind_name(&op.kind)) };
                                    ctx.violate(key, format!("{} did not enter a DOM but its UniqueId went from {:?} to {:?}", m.name, b, now));
                                    return;
                                }
                            }
                        }
                        if prop != "C12" {
                            continue;
                        }
                        if let Some(u) = now {
                            if let Some(prev) = per_dom.insert((m.dom, u), *id) {
                                ctx.violate(
                                    uid_key("duplicate-in-dom", &op.kind, &origin_of(m.dom)),
                                    format!("{} and {} of dom {} both hold UniqueId {:?}", world.model.nodes[&prev].name, m.name, m.dom, u),
                                );
                                return;
                            }
                        }
                    }
                }
            }

            // ---- C10 / C09 ----
            if prop == "C10" {
                // Instances created by clones are judged by C11; here they only
                // end the history if they differ from the model.
                if let Some(msg) = Self::compare_with_model(&world, t.uid_mode, None, Some(&world.clone_created)) {
                    ctx.violate(format!("effect|{}-differs-from-documented-effect", kind_name(&op.kind)), format!("after {}: {}", kind_name(&op.kind), msg));
                    return;
                }
                if Self::compare_with_model(&world, t.uid_mode, Some(&world.clone_created), None).is_some() {
                    ctx.count("aborted_histories");
                    ctx.count("histories_ended_by_a_copy_that_differs_from_the_model(C11's business)");
                    return;
                }
                if let DKind::Transfer { .. } = &op.kind {
                    let total_model = world.model.nodes.len();
                    let total_real: usize = world.model.nodes.iter().filter(|(id, m)| world.doms[m.dom].get_by_ref(world.ref_of[id]).is_some()).count();
                    if total_model != total_real {
                        ctx.violate("effect|transfer-does-not-conserve-instances", format!("model has {} instances, {} resolve", total_model, total_real));
                        return;
                    }
                }
            }
            if prop == "C09" {
                if let Some((key, msg)) = Self::check_forest(&world, &dead) {
                    ctx.violate(format!("{}|after={}", key, kind_name(&op.kind)), format!("after {}: {}", kind_name(&op.kind), msg));
                    return;
                }
            }
            if let DKind::TransferWithinOwnSubtree { .. } = &op.kind {
                // The model has no meaning for it; end the history after judging C09.
                ctx.count("probe:transfer_within_into_own_subtree_accepted");
                return;
            }
            // reach
            let mut shape = Digest::new();
            for (id, m) in &world.model.nodes {
                shape.u64(*id as u64 % ID_STRIDE as u64);
                shape.u64(m.children.len() as u64);
                shape.u64(m.dom as u64);
            }
            kinds_seq.u64(shape.finish());
            ctx.log.u64(shape.finish());
        }

        // End of history: no leaked instances (C10).
        if prop == "C10" {
            for d in 0..n_doms {
                let taken = std::mem::take(&mut world.doms[d]);
                let (_, map) = taken.into_raw();
                let want = world.model.dom_nodes(d).len();
                if map.len() != want {
                    ctx.violate("effect|instances-leaked-or-lost-in-raw-map", format!("dom {}: into_raw() holds {} instances, the model has {}", d, map.len(), want));
                    return;
                }
            }
        }
        if n_exec >= 3 && cross && world.model.nodes.len() >= 4 {
            ctx.distinct.insert(kinds_seq.finish());
        }
        ctx.add("instances_at_end", world.model.nodes.len() as u64);
    }
}

/// A copy of the (uncompressed) file in which the class's `UniqueId` PROP chunk
/// is preceded by a second one whose ids are pairwise distinct: a layout a
/// foreign writer may produce and the reader accepts (the later chunk wins).
fn with_second_unique_id_chunk(file: &[u8]) -> Option<Vec<u8>> {
    for c in crate::iosim::walk_chunks(file) {
        if &c.name != b"PROP" || c.compressed {
            continue;
        }
        let p = &file[c.payload..c.end];
        // type id (u32), name length (u32), name, wire type (u8), values
        if p.len() < 8 {
            continue;
        }
        let name_len = u32::from_le_bytes(p[4..8].try_into().ok()?) as usize;
        if p.len() < 8 + name_len + 1 || &p[8..8 + name_len] != b"UniqueId" {
            continue;
        }
        let values = 8 + name_len + 1;
        let n = (p.len() - values) / 16;
        if n < 2 {
            return None;
        }
        let mut copy = file[c.start..c.end].to_vec();
        let base = 16 + values;
        for j in 0..n {
            // first byte plane of the interleaved 16-byte values: one byte per instance
            copy[base + j] ^= (j as u8).wrapping_add(1);
        }
        let mut out = file[..c.start].to_vec();
        out.extend_from_slice(&copy);
        out.extend_from_slice(&file[c.start..]);
        return Some(out);
    }
    None
}

/// descendants_of(start) against an independent walk over children():
/// every reachable instance exactly once, parents before children.
fn check_descendants_real(dom: &WeakDom, start: Ref) -> Option<(String, String)> {
    let reach = real_subtree(dom, start);
    let reach_set: BTreeSet<u128> = reach.iter().map(|r| ref_key(*r)).collect();
    let mut yielded: BTreeSet<u128> = BTreeSet::new();
    let mut count = 0usize;
    for inst in dom.descendants_of(start) {
        count += 1;
        if count > reach.len() + 5 {
            return Some(("descendants|yields-too-many".into(), format!("descendants_of yields more than the {} reachable instances", reach.len())));
        }
        if inst.referent() != start && !yielded.contains(&ref_key(inst.parent())) {
            return Some(("descendants|child-before-parent".into(), format!("descendants_of yielded {} before its parent", inst.name)));
        }
        if !yielded.insert(ref_key(inst.referent())) {
            return Some(("descendants|yields-twice".into(), format!("descendants_of yielded {} twice", inst.name)));
        }
    }
    if yielded != reach_set {
        return Some(("descendants|misses-reachable".into(), format!("descendants_of yielded {} instances, {} are reachable", yielded.len(), reach_set.len())));
    }
    None
}

impl DomSim {
    /// Scale scenarios: tens of thousands of instances, or nesting tens of
    /// thousands deep. Judged on the real DOMs by counting and by comparing
    /// with independent walks; every property uses its own subset.
    fn exec_scripted(&self, sc: &Scripted, ctx: &mut RunCtx) {
        let prop = ctx.property.clone();
        let mut a = WeakDom::new(InstanceBuilder::new("DataModel"));
        let mut b = WeakDom::new(InstanceBuilder::new("DataModel"));
        let root = a.root_ref();
        let mut all: Vec<Ref> = Vec::new();
        let scen = match sc {
            Scripted::DeepChain { .. } => "deep-chain",
            Scripted::Big { .. } => "big-dom",
        };
        // ---- build (iteratively; the harness itself never recurses) ----
        match sc {
            Scripted::DeepChain { depth } => {
                let mut parent = root;
                for i in 0..*depth {
                    ctx.evals += 1;
                    if i % 256 == 0 {
                        crate::engine::tick();
                    }
                    parent = a.insert(parent, InstanceBuilder::new("Folder").with_name(format!("c{}", i)));
                    all.push(parent);
                }
            }
            Scripted::Big { n, seed } => {
                let mut r = Rng::new(*seed);
                let mut made = 0u32;
                while made < *n {
                    crate::engine::tick();
                    // a builder of up to 500 nodes: a few levels, wide
                    let size = r.range(200, 500) as usize;
                    let mut nodes: Vec<Option<InstanceBuilder>> = (0..size).map(|i| Some(InstanceBuilder::new("Folder").with_name(format!("n{}_{}", made, i)))).collect();
                    let mut parent_of = vec![0usize; size];
                    for (i, p) in parent_of.iter_mut().enumerate().skip(1) {
                        *p = if r.chance(2, 3) { r.usize_below(i.min(8)) } else { r.usize_below(i) };
                    }
                    for i in (1..size).rev() {
                        let child = nodes[i].take().unwrap();
                        let mut p = nodes[parent_of[i]].take().unwrap();
                        p.add_child(child);
                        nodes[parent_of[i]] = Some(p);
                    }
                    let parent = if all.is_empty() || r.chance(1, 3) { root } else { *r.pick(&all) };
                    ctx.evals += 1;
                    let top = a.insert(parent, nodes[0].take().unwrap());
                    for x in real_subtree(&a, top) {
                        all.push(x);
                    }
                    made += size as u32;
                }
            }
        }
        let total = all.len();
        ctx.add("scale_instances_built", total as u64);
        let count_reachable = |d: &WeakDom, s: Ref| real_subtree(d, s).len();
        if count_reachable(&a, root) != total + 1 {
            if prop == "C10" {
                ctx.violate(format!("effect|scale:{}:insert-lost-or-duplicated-instances", scen), format!("{} instances inserted, {} reachable", total, count_reachable(&a, root) - 1));
            }
            return;
        }
        if prop == "C09" {
            for start in [root, all[0], all[total / 2], all[total - 1]] {
                if let Some((k, m)) = check_descendants_real(&a, start) {
                    ctx.violate(format!("{}|scale:{}", k, scen), m);
                    return;
                }
            }
        }
        // ---- clone a large subtree within the DOM (C11) ----
        let big_root = all[0];
        let sub_before = count_reachable(&a, big_root);
        ctx.evals += 1;
        crate::engine::tick();
        let copy = match crate::panic::catch(|| a.clone_within(big_root)) {
            Ok(c) => c,
            Err(p) => {
                if prop == "C11" {
                    ctx.violate(p.key, format!("clone_within of a {}-instance subtree panicked: {}", sub_before, p.message));
                }
                return;
            }
        };
        if prop == "C11" {
            let orig = real_subtree(&a, big_root);
            let cl = real_subtree(&a, copy);
            if orig.len() != cl.len() {
                ctx.violate(format!("clone|scale:{}:shape-differs", scen), format!("the copy has {} instances, the original {}", cl.len(), orig.len()));
                return;
            }
            for (o, c) in orig.iter().zip(cl.iter()) {
                let (oi, ci) = (a.get_by_ref(*o).unwrap(), a.get_by_ref(*c).unwrap());
                if oi.name != ci.name || oi.children().len() != ci.children().len() {
                    ctx.violate(format!("clone|scale:{}:shape-differs", scen), format!("copy of {} is {} with {} children instead of {}", oi.name, ci.name, ci.children().len(), oi.children().len()));
                    return;
                }
            }
            if a.get_by_ref(copy).map(|i| i.parent().is_some()).unwrap_or(true) {
                ctx.violate(format!("clone|scale:{}:root-has-parent", scen), "the copy has a parent".to_string());
                return;
            }
        }
        // ---- destroy the copy again, then part of the original (C09 / C10) ----
        ctx.evals += 1;
        crate::engine::tick();
        let copy_nodes = real_subtree(&a, copy);
        if let Err(p) = crate::panic::catch(|| a.destroy(copy)) {
            if prop == "C10" {
                ctx.violate(p.key, format!("destroy of a {}-instance subtree panicked: {}", copy_nodes.len(), p.message));
            }
            return;
        }
        if prop == "C09" && copy_nodes.iter().any(|r| a.get_by_ref(*r).is_some()) {
            ctx.violate(format!("forest|scale:{}:removed-instance-still-resolves", scen), "an instance of the destroyed copy still resolves".to_string());
            return;
        }
        if prop == "C10" && count_reachable(&a, root) != total + 1 {
            ctx.violate(format!("effect|scale:{}:destroy-removed-wrong-set", scen), format!("after destroying the copy {} instances are reachable, expected {}", count_reachable(&a, root) - 1, total));
            return;
        }
        let victim = all[total / 2];
        let victim_size = count_reachable(&a, victim);
        ctx.evals += 1;
        crate::engine::tick();
        if let Err(p) = crate::panic::catch(|| a.destroy(victim)) {
            if prop == "C10" {
                ctx.violate(p.key, format!("destroy of a {}-instance subtree panicked: {}", victim_size, p.message));
            }
            return;
        }
        let left = total - victim_size;
        if prop == "C10" && count_reachable(&a, root) != left + 1 {
            ctx.violate(format!("effect|scale:{}:destroy-removed-wrong-set", scen), format!("after destroy {} instances are reachable, expected {}", count_reachable(&a, root) - 1, left));
            return;
        }
        // ---- transfer what is left of the first subtree into the other DOM ----
        if big_root != victim && a.get_by_ref(big_root).is_some() {
            let moving = count_reachable(&a, big_root);
            let broot = b.root_ref();
            ctx.evals += 1;
            crate::engine::tick();
            if let Err(p) = crate::panic::catch(|| a.transfer(big_root, &mut b, broot)) {
                if prop == "C10" {
                    ctx.violate(p.key, format!("transfer of a {}-instance subtree panicked: {}", moving, p.message));
                }
                return;
            }
            let (na, nb) = (count_reachable(&a, root) - 1, count_reachable(&b, broot) - 1);
            if prop == "C10" && (nb != moving || na + nb != left) {
                ctx.violate(format!("effect|scale:{}:transfer-does-not-conserve-instances", scen), format!("{} instances before, {} + {} after, {} were to move", left, na, nb, moving));
                return;
            }
            if prop == "C09" {
                for (d, s) in [(&a, root), (&b, broot)] {
                    if let Some((k, m)) = check_descendants_real(d, s) {
                        ctx.violate(format!("{}|scale:{}", k, scen), m);
                        return;
                    }
                }
            }
        }
        ctx.distinct.insert(crate::prng::digest_bytes(format!("{:?}", sc).as_bytes()));
        ctx.log.u64(total as u64);
    }
}

impl World {
    fn name_of(&self, r: Ref) -> String {
        for (id, rr) in &self.ref_of {
            if *rr == r {
                if let Some(m) = self.model.nodes.get(id) {
                    return m.name.clone();
                }
            }
        }
        "?".into()
    }
}

/// Key of a UniqueId violation. For DOMs that came out of a decoder the
/// operation kind is left out: whatever later operation exposes it, the history
/// that matters is "this DOM was produced by that reader".
fn uid_key(class: &str, op: &DKind, origin: &str) -> String {
    if origin.starts_with("decoded") {
        format!("uid|{}|origin={}", class, origin)
    } else {
        format!("uid|{}|after={}|origin={}", class, kind_name(op), origin)
    }
}

fn two_mut(v: &mut [WeakDom], a: usize, b: usize) -> (&mut WeakDom, &mut WeakDom) {
    assert!(a != b);
    if a < b {
        let (l, r) = v.split_at_mut(b);
        (&mut l[a], &mut r[0])
    } else {
        let (l, r) = v.split_at_mut(a);
        (&mut r[0], &mut l[b])
    }
}

pub fn kind_name(k: &DKind) -> &'static str {
    match k {
        DKind::Insert { .. } => "insert",
        DKind::Destroy { .. } => "destroy",
        DKind::TransferWithin { .. } => "transfer_within",
        DKind::TransferWithinOwnSubtree { .. } => "transfer_within(into-own-subtree)",
        DKind::Transfer { .. } => "transfer",
        DKind::CloneWithin { .. } => "clone_within",
        DKind::CloneInto { .. } => "clone_into_external",
        DKind::CloneMulti { .. } => "clone_multiple_into_external",
        DKind::RawRoundTrip { .. } => "into_raw+from_raw",
        DKind::NewDom { .. } => "WeakDom::new",
        DKind::EncodeDecode { fmt: 0, .. } => "encode+decode:binary",
        DKind::EncodeDecode { .. } => "encode+decode:xml",
        DKind::DecodeDupFile { fmt: 0, .. } => "decode-duplicate-ids:binary",
        DKind::DecodeDupFile { .. } => "decode-duplicate-ids:xml",
    }
}

impl Engine for DomSim {
    fn name(&self) -> &'static str {
        "domsim"
    }

    fn generate(&self, run_seed: u64, index: u64, property: &str, thorough: bool) -> Value {
        let _ = &self.cat;
        let scripted = match index {
            0 => Some(Scripted::DeepChain { depth: if thorough { 100_000 } else { 30_000 } }),
            1 => Some(Scripted::Big { n: 6_000, seed: run_seed }),
            2 => Some(Scripted::Big { n: if thorough { 140_000 } else { 70_000 }, seed: run_seed ^ 1 }),
            3 => Some(Scripted::DeepChain { depth: 4_100 }),
            _ => None,
        };
        if let Some(sc) = scripted {
            return serde_json::to_value(&DomTrace { n_doms: 2, uid_mode: false, ops: vec![], scripted: Some(sc) }).unwrap();
        }
        let mut r = Rng::new(run_seed);
        serde_json::to_value(&self.gen_history(&mut r, property, thorough)).unwrap()
    }

    fn execute(&self, trace: &Value, ctx: &mut RunCtx) {
        let t: DomTrace = match serde_json::from_value(trace.clone()) {
            Ok(t) => t,
            Err(e) => {
                ctx.violate("harness|bad-trace", e.to_string());
                return;
            }
        };
        if let Some(sc) = &t.scripted {
            ctx.count("scripted_scale_scenarios");
            self.exec_scripted(sc, ctx);
            return;
        }
        ctx.count(if t.uid_mode { "histories_with_unique_ids" } else { "histories_without_unique_ids" });
        self.exec(&t, ctx);
    }

    fn shrink_candidates(&self, trace: &Value, _key: &str) -> Vec<Value> {
        let t: DomTrace = match serde_json::from_value(trace.clone()) {
            Ok(t) => t,
            Err(_) => return vec![],
        };
        let mut out: Vec<DomTrace> = Vec::new();
        match &t.scripted {
            Some(Scripted::DeepChain { depth }) if *depth > 2 => {
                for d in [depth / 2, depth - depth / 8 - 1] {
                    out.push(DomTrace { scripted: Some(Scripted::DeepChain { depth: d }), ..t.clone() });
                }
            }
            Some(Scripted::Big { n, seed }) if *n > 20 => {
                for m in [n / 2, n - n / 8 - 1] {
                    out.push(DomTrace { scripted: Some(Scripted::Big { n: m, seed: *seed }), ..t.clone() });
                }
            }
            _ => {}
        }
        // drop the tail, then single operations
        if t.ops.len() > 1 {
            let mut c = t.clone();
            c.ops.truncate(t.ops.len() / 2);
            out.push(c);
            let mut c = t.clone();
            c.ops.pop();
            out.push(c);
        }
        for i in 0..t.ops.len() {
            let mut c = t.clone();
            c.ops.remove(i);
            out.push(c);
        }
        // simpler builders
        for i in 0..t.ops.len() {
            if let DKind::Insert { dom, parent, tree } = &t.ops[i].kind {
                for cand in crate::iosim::shrink_tree(tree) {
                    // hoisting a child changes pre-order ids; only keep candidates with the same root
                    if cand.name == tree.name || cand.children.len() <= tree.children.len() {
                        let mut c = t.clone();
                        c.ops[i].kind = DKind::Insert { dom: *dom, parent: *parent, tree: cand };
                        out.push(c);
                    }
                }
            }
            if let DKind::NewDom { dom, tree } = &t.ops[i].kind {
                for cand in crate::iosim::shrink_tree(tree) {
                    if cand.name == tree.name || cand.children.len() <= tree.children.len() {
                        let mut c = t.clone();
                        c.ops[i].kind = DKind::NewDom { dom: *dom, tree: cand };
                        out.push(c);
                    }
                }
            }
            if let DKind::CloneMulti { nodes, dest_dom } = &t.ops[i].kind {
                if nodes.len() > 1 {
                    for j in 0..nodes.len() {
                        let mut n = nodes.clone();
                        n.remove(j);
                        let mut c = t.clone();
                        c.ops[i].kind = DKind::CloneMulti { nodes: n, dest_dom: *dest_dom };
                        out.push(c);
                    }
                }
            }
        }
        out.into_iter().map(|t| serde_json::to_value(&t).unwrap()).collect()
    }

    fn abort_key(&self, trace: &Value, how: &str) -> String {
        let t: Option<DomTrace> = serde_json::from_value(trace.clone()).ok();
        match t.and_then(|t| t.scripted) {
            Some(Scripted::DeepChain { .. }) => format!("abort|{}|domsim|deep-chain", how),
            Some(Scripted::Big { .. }) => format!("abort|{}|domsim|big-dom", how),
            None => format!("abort|{}|domsim", how),
        }
    }

    fn distinct_rule(&self, property: &str) -> String {
        format!(
            "One evaluation is one WeakDom operation executed on the real DOMs within a seeded history (1-3 DOMs, up to 40 operations) and compared with the reference model ({} oracles only). distinct_nontrivial counts distinct histories by (sequence of operation kinds, forest shape signature after every step) among histories with at least 3 executed operations, at least one cross-DOM or clone operation and at least 4 instances at the end.",
            property
        )
    }

    fn assumptions(&self, property: &str) -> Vec<String> {
        let mut v = vec![
            "WeakDom is single-threaded: there is no scheduler, I/O or crash to inject; the simulated nondeterminism is Ref::new() values, per-map hash keys and (C12) the clock/RNG behind UniqueId::now(). The method is seeded operation histories against an executable reference model.".to_string(),
            "Arguments are drawn from the model's current node sets, so every call is within its documented preconditions; operations whose preconditions fail in the current state are skipped.".to_string(),
            "Referents of clones are not predicted by the model; they are bound by parallel traversal.".to_string(),
        ];
        if property == "C12" {
            v.push("For decode operations only uniqueness and bookkeeping are asserted, not that the codec carried each id value through the file (that is C01/C02).".to_string());
        }
        v
    }
}

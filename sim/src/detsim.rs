//! detsim — the same logical tree is materialised in environments that differ
//! only in nondeterminism and construction history; serializer output must be
//! byte-identical in all of them, and load/save must be a fixed point after
//! the first save. Decides C07. The per-process hash keys are varied across
//! worker processes and compared by the orchestrator.

use rbx_dom_weak::types::{Ref, Variant};
use rbx_dom_weak::{InstanceBuilder, WeakDom};
use serde::{Deserialize, Serialize};
use serde_json::Value;

use crate::engine::{Engine, RunCtx};
use crate::iosim::Format;
use crate::prng::{derive, digest_bytes, Digest, Rng};
use crate::spec::{self, Catalog, NodeSpec, RefT, TreeParams, ValSpec};

#[derive(Clone, Debug, Serialize, Deserialize, PartialEq)]
pub struct DetTrace {
    /// Save the children of the tree's root as several roots instead of the root.
    #[serde(default)]
    pub multi_root: bool,
    /// With `multi_root`: how the caller's list of roots is shaped. 0 = the children in
    /// order; 1 = reversed; 2 = the last child named again at the front (a root listed
    /// twice); 3 = every child named twice.
    #[serde(default)]
    pub root_list: u8,
    pub tree: NodeSpec,
    /// Environment kinds to compare with the canonical one.
    pub envs: Vec<u8>,
    pub env_seed_salt: u64,
}

pub const FORMATS: &[Format] = &[Format::BinLz4, Format::BinNone, Format::BinZstd, Format::Xml, Format::XmlUnknown, Format::XmlNoReflection];

const ENV_NAMES: &[&str] = &[
    "canonical",
    "other-ref-and-map-hash-streams",
    "permuted-property-insertion-order",
    "node-by-node-inserts",
    "built-elsewhere-then-transferred",
    "built-elsewhere-then-cloned",
    "extra-properties-added-and-removed",
    "into_raw+from_raw",
    "unrelated-instances-inserted-and-destroyed-around-it",
    "after-a-failed-save-of-another-selection-on-this-thread",
    "after-a-successful-save-of-another-dom-on-this-thread",
    "built-destroyed-and-built-again-in-the-same-dom",
];

pub struct DetSim {
    cat: Catalog,
}

fn flat_builder(node: &NodeSpec, me: Ref, refs: &[Ref], order: Option<&mut Rng>) -> InstanceBuilder {
    let resolve = |t: &RefT| -> Ref {
        match t {
            RefT::Null => Ref::none(),
            RefT::Node(k) => refs.get(*k as usize).copied().unwrap_or_else(Ref::none),
            RefT::Dangling(v) => spec::dangling_ref(*v),
        }
    };
    let mut b = InstanceBuilder::new(node.class.as_str()).with_referent(me).with_name(node.name.clone());
    let mut idx: Vec<usize> = (0..node.props.len()).collect();
    if let Some(r) = order {
        r.shuffle(&mut idx);
    }
    for i in idx {
        let (k, v) = &node.props[i];
        b.add_property(k.as_str(), spec::value_of(v, &resolve));
    }
    b
}

fn nested_builder(node: &NodeSpec, refs: &[Ref], next: &mut usize, order: &mut Option<Rng>) -> InstanceBuilder {
    let me = refs[*next];
    *next += 1;
    let mut b = flat_builder(node, me, refs, order.as_mut());
    for c in &node.children {
        b.add_child(nested_builder(c, refs, next, order));
    }
    b
}

/// Materialises `tree` under a DataModel root according to `env`; returns the
/// DOM and the referent of the tree's root instance.
fn build_env(tree: &NodeSpec, env: u8, seed: u64) -> (WeakDom, Ref) {
    let n = tree.count();
    match env {
        1 => {
            crate::env::reset_ref_stream(derive(seed, 101));
            crate::env::reset_map_seed(derive(seed, 102));
        }
        _ => {}
    }
    let mut dom = WeakDom::new(InstanceBuilder::new("DataModel"));
    let root = dom.root_ref();
    let refs: Vec<Ref> = (0..n).map(|_| Ref::new()).collect();
    match env {
        2 => {
            let mut order = Some(Rng::new(derive(seed, 2)));
            let mut next = 0;
            let b = nested_builder(tree, &refs, &mut next, &mut order);
            let r = dom.insert(root, b);
            (dom, r)
        }
        3 => {
            // node by node, parents first
            let mut next = 0usize;
            fn go(dom: &mut WeakDom, parent: Ref, node: &NodeSpec, refs: &[Ref], next: &mut usize) -> Ref {
                let me = refs[*next];
                *next += 1;
                let r = dom.insert(parent, flat_builder(node, me, refs, None));
                for c in &node.children {
                    go(dom, r, c, refs, next);
                }
                r
            }
            let r = go(&mut dom, root, tree, &refs, &mut next);
            (dom, r)
        }
        4 => {
            let mut other = WeakDom::new(InstanceBuilder::new("DataModel"));
            let oroot = other.root_ref();
            // some unrelated content first, so table layouts differ
            other.insert(oroot, InstanceBuilder::new("Folder").with_name("unrelated"));
            let mut next = 0;
            let b = nested_builder(tree, &refs, &mut next, &mut None);
            let r = other.insert(oroot, b);
            other.transfer(r, &mut dom, root);
            (dom, r)
        }
        5 => {
            let mut other = WeakDom::new(InstanceBuilder::new("DataModel"));
            let oroot = other.root_ref();
            let mut next = 0;
            let b = nested_builder(tree, &refs, &mut next, &mut None);
            let r = other.insert(oroot, b);
            let c = other.clone_into_external(r, &mut dom);
            dom.transfer_within(c, root);
            (dom, c)
        }
        6 => {
            let mut next = 0;
            let b = nested_builder(tree, &refs, &mut next, &mut None);
            let r = dom.insert(root, b);
            let all: Vec<Ref> = dom.descendants().map(|i| i.referent()).collect();
            for x in all {
                let inst = dom.get_by_ref_mut(x).unwrap();
                for j in 0..12 {
                    inst.properties.insert(format!("ZzJunk{}", j).as_str().into(), Variant::Bool(true));
                }
                for j in 0..12 {
                    inst.properties.remove(&rbx_dom_weak::ustr(&format!("ZzJunk{}", j)));
                }
            }
            (dom, r)
        }
        7 => {
            let mut next = 0;
            let b = nested_builder(tree, &refs, &mut next, &mut None);
            let r = dom.insert(root, b);
            let (rr, map) = dom.into_raw();
            (WeakDom::from_raw(rr, map), r)
        }
        11 => {
            // A detour: the tree is built, destroyed, and built again in the same
            // DOM. Everything the first copy held (referents apart) is free again.
            let first: Vec<Ref> = (0..n).map(|_| Ref::new()).collect();
            let mut next = 0;
            let b = nested_builder(tree, &first, &mut next, &mut None);
            let r1 = dom.insert(root, b);
            dom.destroy(r1);
            let mut next = 0;
            let b = nested_builder(tree, &refs, &mut next, &mut None);
            let r = dom.insert(root, b);
            (dom, r)
        }
        8 => {
            // Other instances come and go in the same DOM, so the instance map
            // has another capacity, probe order and tombstones.
            let mut junk = Vec::new();
            for j in 0..(seed % 23 + 5) {
                junk.push(dom.insert(root, InstanceBuilder::new("Folder").with_name(format!("junk{}", j))));
            }
            dom.reserve(64);
            let mut next = 0;
            let b = nested_builder(tree, &refs, &mut next, &mut None);
            let r = dom.insert(root, b);
            for j in junk {
                dom.destroy(j);
            }
            (dom, r)
        }
        _ => {
            let mut next = 0;
            let b = nested_builder(tree, &refs, &mut next, &mut None);
            let r = dom.insert(root, b);
            (dom, r)
        }
    }
}

#[derive(Clone, PartialEq)]
enum Saved {
    Ok(Vec<u8>),
    Err(String),
    Panic(String),
}

impl Saved {
    fn class(&self) -> &'static str {
        match self {
            Saved::Ok(_) => "ok",
            Saved::Err(_) => "err",
            Saved::Panic(_) => "panic",
        }
    }
    fn digest(&self) -> u64 {
        match self {
            Saved::Ok(b) => digest_bytes(b),
            Saved::Err(_) => 1,
            Saved::Panic(_) => 2,
        }
    }
}

fn save(format: Format, dom: &WeakDom, roots: &[Ref]) -> Saved {
    crate::engine::tick();
    let src_dom = dom;
    let res = crate::panic::catch(|| {
        let mut buf = Vec::new();
        let r = match format {
            Format::BinLz4 | Format::BinNone | Format::BinZstd => {
                let c = match format {
                    Format::BinLz4 => rbx_binary::CompressionType::Lz4,
                    Format::BinNone => rbx_binary::CompressionType::None,
                    _ => rbx_binary::CompressionType::Zstd,
                };
                rbx_binary::Serializer::new().compression_type(c).serialize(&mut buf, src_dom, roots).map_err(|e| e.to_string())
            }
            Format::XmlUnknown | Format::XmlNoReflection => rbx_xml::to_writer(
                &mut buf,
                src_dom,
                roots,
                rbx_xml::EncodeOptions::new().property_behavior(if format == Format::XmlUnknown {
                    rbx_xml::EncodePropertyBehavior::WriteUnknown
                } else {
                    rbx_xml::EncodePropertyBehavior::NoReflection
                }),
            )
            .map_err(|e| e.to_string()),
            _ => rbx_xml::to_writer_default(&mut buf, src_dom, roots).map_err(|e| e.to_string()),
        };
        r.map(|_| buf)
    });
    match res {
        Ok(Ok(b)) => Saved::Ok(b),
        Ok(Err(e)) => Saved::Err(e),
        Err(p) => Saved::Panic(p.key),
    }
}

/// A writer that fails once `limit` bytes have been accepted.
struct FailingSink {
    taken: usize,
    limit: usize,
}

impl std::io::Write for FailingSink {
    fn write(&mut self, buf: &[u8]) -> std::io::Result<usize> {
        if self.taken >= self.limit {
            return Err(std::io::Error::new(std::io::ErrorKind::Other, "rbxsim: disk full"));
        }
        let n = buf.len().min(self.limit - self.taken);
        self.taken += n;
        Ok(n)
    }
    fn flush(&mut self) -> std::io::Result<()> {
        Ok(())
    }
}

/// What the calling thread did with the serializer *before* the save that is
/// compared. Output must not depend on it.
fn serializer_history(format: Format, env: u8, dom: &WeakDom, seed: u64) {
    match env {
        9 => {
            // a save of another selection (the whole DOM, DataModel included)
            // into a sink that fails part-way
            let limit = 40 + (seed % 400) as usize;
            let _ = crate::panic::catch(|| {
                let sink = FailingSink { taken: 0, limit };
                let roots = [dom.root_ref()];
                match format {
                    Format::BinLz4 | Format::BinNone | Format::BinZstd => {
                        let c = match format {
                            Format::BinLz4 => rbx_binary::CompressionType::Lz4,
                            Format::BinNone => rbx_binary::CompressionType::None,
                            _ => rbx_binary::CompressionType::Zstd,
                        };
                        let _ = rbx_binary::Serializer::new().compression_type(c).serialize(sink, dom, &roots);
                    }
                    _ => {
                        let _ = rbx_xml::to_writer_default(sink, dom, &roots);
                    }
                }
            });
        }
        10 => {
            let mut other = WeakDom::new(InstanceBuilder::new("DataModel"));
            let oroot = other.root_ref();
            let a = other.insert(oroot, InstanceBuilder::new("Part").with_name("other").with_property("Anchored", true));
            other.insert(a, InstanceBuilder::new("ObjectValue").with_property("Value", Variant::Ref(a)));
            let _ = save(format, &other, &[a]);
        }
        _ => {}
    }
}

fn load(format: Format, bytes: &[u8]) -> Option<WeakDom> {
    let res = crate::panic::catch(|| match format {
        Format::BinLz4 | Format::BinNone | Format::BinZstd => rbx_binary::from_reader(bytes).ok(),
        Format::XmlUnknown | Format::XmlNoReflection => rbx_xml::from_reader(
            bytes,
            rbx_xml::DecodeOptions::new().property_behavior(if format == Format::XmlUnknown {
                rbx_xml::DecodePropertyBehavior::ReadUnknown
            } else {
                rbx_xml::DecodePropertyBehavior::NoReflection
            }),
        )
        .ok(),
        _ => rbx_xml::from_reader_default(bytes).ok(),
    });
    res.ok().flatten()
}

impl DetSim {
    pub fn new() -> DetSim {
        DetSim { cat: spec::build_catalog() }
    }

    fn prop_type(&self, class: &str, prop: &str) -> Option<String> {
        let i = *self.cat.by_name.get(class)?;
        self.cat.classes[i].props.iter().find(|(n, _)| n == prop).map(|(_, t)| t.clone())
    }

    fn gen_tree(&self, r: &mut Rng) -> NodeSpec {
        const CLASSES: &[&str] = &[
            "Part", "Part", "TextLabel", "Folder", "ObjectValue", "Model", "WeldConstraint", "MeshPart",
            "StringValue", "Script", "VerifUnknownA", "VerifUnknownB", "Decal", "SpawnLocation", "TextButton", "MeshPart", "ImageLabel", "ScreenGui",
        ];
        let n_pal = r.range(1, 4) as usize;
        let palette: Vec<String> = (0..n_pal).map(|_| r.pick(CLASSES).to_string()).collect();
        let p = TreeParams {
            max_nodes: match r.below(4) {
                0 => 2,
                1 => 5,
                _ => r.range(3, 16) as usize,
            },
            max_depth: r.range(1, 6) as usize,
            max_props: r.range(0, 6) as usize,
            palette,
            known_prop_permille: *r.pick(&[400u64, 800, 950]),
            allow_uid: false,
            shared_pool: (0..r.below(3)).map(|_| spec::bytesv(r)).collect(),
        };
        let mut tree = spec::gen_tree(r, &self.cat, &p);
        // Content object references are not rewritten by clone (only Ref
        // properties are), so they would make the "cloned in" environment a
        // different logical tree. Keep Content values referent-free here.
        tree.for_each_mut(&mut |node| {
            for (_, v) in node.props.iter_mut() {
                if let ValSpec::ContentRef(_) = v {
                    *v = ValSpec::G { ty: "Content".into(), s: 7 };
                }
                // clone nulls Refs to instances that do not exist in the
                // destination; a dangling Ref is therefore not the same logical
                // content before and after a clone.
                if let ValSpec::Ref(RefT::Dangling(_)) = v {
                    *v = ValSpec::Ref(RefT::Null);
                }
            }
        });
        // Alias / legacy-name combinations on one instance, and distinct UniqueIds.
        const GROUPS: &[&[&str]] = &[
            &["Color", "Color3uint8", "BrickColor", "brickColor"],
            &["size", "Size"],
            &["Font", "FontFace"],
            &["archivable", "Archivable"],
            &["Tags"],
            &["Attributes", "AttributesSerialize"],
            &["formFactor", "FormFactor", "formFactorRaw"],
            &["CFrame", "CoordinateFrame"],
            &["Position", "Velocity"],
            // legacy names that migrate, next to their replacements
            &["MeshId", "MeshContent"],
            &["TextureID", "TextureContent"],
            &["Texture", "TextureContent"],
            &["Image", "ImageContent"],
            &["IgnoreGuiInset", "ScreenInsets"],
        ];
        let mut uid_ctr = 1u32;
        let with_uid = r.chance(1, 3);
        let mut rr = r.fork("alias");
        tree.for_each_mut(&mut |node| {
            if rr.chance(1, 2) {
                let g = *rr.pick(GROUPS);
                let k = rr.range(1, g.len() as u64) as usize;
                let mut names: Vec<&str> = g.to_vec();
                rr.shuffle(&mut names);
                for name in names.into_iter().take(k) {
                    if node.props.iter().any(|(n, _)| n == name) {
                        continue;
                    }
                    let ty = match self.prop_type(&node.class, name) {
                        Some(t) => t,
                        None => continue,
                    };
                    let spec = if ty.starts_with("enum:") {
                        ValSpec::G { ty: "Enum".into(), s: rr.below(8) }
                    } else {
                        ValSpec::G { ty, s: rr.below(1 << 20) }
                    };
                    node.props.push((name.to_string(), spec));
                }
            }
            if with_uid && rr.chance(2, 3) {
                node.props.retain(|(n, _)| n != "UniqueId");
                node.props.push(("UniqueId".into(), ValSpec::Uid(uid_ctr, 1000 + uid_ctr, 5_000_000 + uid_ctr as i64)));
                uid_ctr += 1;
            }
        });
        tree
    }

    fn nontrivial(tree: &NodeSpec) -> bool {
        let mut classes: std::collections::BTreeMap<&str, Vec<Vec<&str>>> = std::collections::BTreeMap::new();
        let mut hit = false;
        tree.for_each(&mut |n| {
            let mut names: Vec<&str> = n.props.iter().map(|(k, _)| k.as_str()).collect();
            names.sort();
            classes.entry(n.class.as_str()).or_default().push(names);
            for (k, v) in &n.props {
                if matches!(v, ValSpec::Shared(_) | ValSpec::Ref(RefT::Node(_))) {
                    hit = true;
                }
                if ["Color", "Color3uint8", "BrickColor", "brickColor", "size", "Font", "FontFace", "archivable", "formFactor", "CoordinateFrame"].contains(&k.as_str()) {
                    hit = true;
                }
            }
        });
        for sets in classes.values() {
            if sets.len() >= 2 && sets.iter().any(|s| *s != sets[0]) {
                hit = true;
            }
        }
        hit
    }
}

impl Engine for DetSim {
    fn name(&self) -> &'static str {
        "detsim"
    }

    fn scripted(&self, _property: &str, _thorough: bool) -> u64 {
        4
    }

    fn generate(&self, run_seed: u64, index: u64, _property: &str, _thorough: bool) -> Value {
        let mut r = Rng::new(run_seed);
        let tree = match index {
            // Scripted: the alias + migrating name pair from the C08 rationale.
            0 => NodeSpec {
                class: "Part".into(),
                name: "p".into(),
                props: vec![
                    ("BrickColor".into(), ValSpec::G { ty: "BrickColor".into(), s: 3 }),
                    ("Color3uint8".into(), ValSpec::G { ty: "Color3uint8".into(), s: 4 }),
                ],
                children: vec![],
            },
            1 => NodeSpec {
                class: "TextLabel".into(),
                name: "t".into(),
                props: vec![
                    ("Font".into(), ValSpec::G { ty: "Enum".into(), s: 3 }),
                    ("FontFace".into(), ValSpec::G { ty: "Font".into(), s: 4 }),
                ],
                children: vec![],
            },
            // Scale: more than 256 classes (type ids beyond one byte), and more
            // than a thousand instances of one class with Ref edges between them.
            2 => NodeSpec {
                class: "Folder".into(),
                name: "many-classes".into(),
                props: vec![],
                children: (0..300)
                    .map(|i| NodeSpec {
                        class: format!("VerifClass{:03}", (i * 7) % 300),
                        name: format!("k{}", i),
                        props: vec![("Value".into(), ValSpec::I32(i)), ("Link".into(), ValSpec::Ref(RefT::Node(((i * 13) % 300 + 1) as u32)))],
                        children: vec![],
                    })
                    .collect(),
            },
            3 => NodeSpec {
                class: "Model".into(),
                name: "many-instances".into(),
                props: vec![],
                children: (0..1200)
                    .map(|i| NodeSpec {
                        class: "ObjectValue".into(),
                        name: format!("o{}", i),
                        props: if i % 3 == 0 { vec![] } else { vec![("Value".into(), ValSpec::Ref(RefT::Node(((i * 31) % 1200 + 1) as u32)))] },
                        children: vec![],
                    })
                    .collect(),
            },
            _ => self.gen_tree(&mut r),
        };
        let mut envs: Vec<u8> = (1..ENV_NAMES.len() as u8).collect();
        r.shuffle(&mut envs);
        envs.truncate(r.range(2, 4) as usize);
        let multi_root = tree.children.len() >= 2 && r.chance(1, 3);
        let env_seed_salt = r.next_u64() >> 16;
        let root_list = if multi_root { *r.pick(&[0u8, 0, 1, 2, 3]) } else { 0 };
        serde_json::to_value(&DetTrace { multi_root, root_list, tree, envs, env_seed_salt }).unwrap()
    }

    fn execute(&self, trace: &Value, ctx: &mut RunCtx) {
        let t: DetTrace = match serde_json::from_value(trace.clone()) {
            Ok(t) => t,
            Err(e) => {
                ctx.violate("harness|bad-trace", e.to_string());
                return;
            }
        };
        // canonical environment
        crate::env::rewind();
        let (dom0, root0) = build_env(&t.tree, 0, t.env_seed_salt);
        // UniqueId *values* are masked in this precondition: if construction
        // history makes the library regenerate ids (from the clock and RNG), the
        // output is not reproducible, which is exactly what C07 is about.
        let canon0 = spec::canon_without_uid_values(&dom0);
        let selection = |dom: &WeakDom, root: Ref| -> Vec<Ref> {
            if t.multi_root {
                let kids = dom.get_by_ref(root).map(|i| i.children().to_vec()).unwrap_or_default();
                match t.root_list {
                    1 => kids.into_iter().rev().collect(),
                    2 => kids.last().copied().into_iter().chain(kids.iter().copied()).collect(),
                    3 => kids.iter().copied().chain(kids.iter().copied()).collect(),
                    _ => kids,
                }
            } else {
                vec![root]
            }
        };
        let sel0 = selection(&dom0, root0);
        let mut base: Vec<Saved> = Vec::new();
        for f in FORMATS {
            ctx.evals += 1;
            let s = save(*f, &dom0, &sel0);
            ctx.count(&format!("canonical_outcome:{}:{}", f.tag(), s.class()));
            // Cross-process comparison label: outcome class and bytes of the canonical build.
            ctx.outputs.push((format!("{}|save", f.tag()), s.digest()));
            ctx.log.u64(s.digest());
            base.push(s);
        }
        for env in &t.envs {
            crate::env::rewind();
            let (dom, root) = build_env(&t.tree, *env, t.env_seed_salt);
            let env_name = ENV_NAMES[*env as usize % ENV_NAMES.len()];
            // The comparison is only meaningful if both constructions really
            // yield the same logical tree (public view: shape, order, names,
            // classes, sorted properties, referents by position). If a DOM
            // operation itself misbehaves (C09-C11's business) they may not.
            if spec::canon_without_uid_values(&dom) != canon0 {
                ctx.count(&format!("env_skipped_not_the_same_logical_tree:{}", env_name));
                continue;
            }
            ctx.count(&format!("fault_fired:env:{}", env_name));
            for (fi, f) in FORMATS.iter().enumerate() {
                ctx.evals += 1;
                serializer_history(*f, *env, &dom, t.env_seed_salt);
                let s = save(*f, &dom, &selection(&dom, root));
                ctx.log.u64(s.digest());
                if s.class() != base[fi].class() {
                    ctx.violate(
                        format!("in-process|{}|{}|outcome-differs", f.tag(), env_name),
                        format!("canonical build serializes to {}, the same logical tree in environment '{}' to {}", base[fi].class(), env_name, s.class()),
                    );
                } else if s != base[fi] && s.class() == "ok" {
                    let (a, b) = match (&base[fi], &s) {
                        (Saved::Ok(a), Saved::Ok(b)) => (a.len(), b.len()),
                        _ => (0, 0),
                    };
                    ctx.violate(
                        format!("in-process|{}|{}|bytes-differ", f.tag(), env_name),
                        format!("canonical build gives {} bytes, the same logical tree in environment '{}' gives {} different bytes", a, env_name, b),
                    );
                }
            }
        }
        // fixed point after the first save
        for (fi, f) in FORMATS.iter().enumerate() {
            if let Saved::Ok(b1) = &base[fi] {
                crate::env::rewind();
                let d1 = match load(*f, b1) {
                    Some(d) => d,
                    None => {
                        ctx.count(&format!("reload_rejected:{}", f.tag()));
                        continue;
                    }
                };
                let roots1: Vec<Ref> = d1.root().children().to_vec();
                ctx.evals += 1;
                let b2 = match save(*f, &d1, &roots1) {
                    Saved::Ok(b) => b,
                    other => {
                        ctx.count(&format!("resave_failed:{}:{}", f.tag(), other.class()));
                        continue;
                    }
                };
                ctx.outputs.push((format!("{}|resave", f.tag()), digest_bytes(&b2)));
                let d2 = match load(*f, &b2) {
                    Some(d) => d,
                    None => {
                        ctx.count(&format!("reload2_rejected:{}", f.tag()));
                        continue;
                    }
                };
                let roots2: Vec<Ref> = d2.root().children().to_vec();
                ctx.evals += 1;
                match save(*f, &d2, &roots2) {
                    Saved::Ok(b3) => {
                        ctx.count("fixed_point_checked");
                        if b2 != b3 {
                            let pos = b2.iter().zip(b3.iter()).position(|(x, y)| x != y).unwrap_or(b2.len().min(b3.len()));
                            ctx.violate(
                                format!("fixed-point|{}|second-and-third-save-differ", f.tag()),
                                format!("save(load(save(T))) is {} bytes, saving its reload gives {} bytes; first difference at offset {}", b2.len(), b3.len(), pos),
                            );
                        }
                    }
                    other => ctx.count(&format!("resave2_failed:{}:{}", f.tag(), other.class())),
                }
            }
        }
        // The same for a *foreign* file: one written without the reflection database
        // (names and types exactly as in the DOM, so legacy names stand next to their
        // replacements and aliases next to canonical names, in name order). Loading it
        // and saving is the first save; loading that and saving again must reproduce it.
        crate::env::rewind();
        if let Saved::Ok(f0) = save(Format::XmlNoReflection, &dom0, &sel0) {
            // Same format throughout (the file is XML, so the XML behaviours): what a
            // conversion to the other format does to the bytes is not C07's subject.
            for f in FORMATS.iter().filter(|f| f.is_xml() && **f != Format::XmlNoReflection) {
                crate::env::rewind();
                let reader = *f;
                let l1 = match load(reader, &f0) {
                    Some(d) => d,
                    None => {
                        ctx.count(&format!("foreign_file_rejected:{}", reader.tag()));
                        continue;
                    }
                };
                let r1: Vec<Ref> = l1.root().children().to_vec();
                ctx.evals += 1;
                let b1 = match save(*f, &l1, &r1) {
                    Saved::Ok(b) => b,
                    other => {
                        ctx.count(&format!("foreign_file_save_failed:{}:{}", f.tag(), other.class()));
                        continue;
                    }
                };
                let l2 = match load(*f, &b1) {
                    Some(d) => d,
                    None => {
                        ctx.count(&format!("foreign_file_reload_rejected:{}", f.tag()));
                        continue;
                    }
                };
                let r2: Vec<Ref> = l2.root().children().to_vec();
                ctx.evals += 1;
                match save(*f, &l2, &r2) {
                    Saved::Ok(b2) => {
                        ctx.count("foreign_file_fixed_point_checked");
                        ctx.log.u64(digest_bytes(&b2));
                        if b1 != b2 {
                            let pos = b1.iter().zip(b2.iter()).position(|(x, y)| x != y).unwrap_or(b1.len().min(b2.len()));
                            ctx.violate(
                                format!("fixed-point|{}|foreign-file|first-and-second-save-differ", f.tag()),
                                format!(
                                    "a file written without the reflection database was loaded and saved ({} bytes); loading that and saving again gives {} bytes; first difference at offset {}",
                                    b1.len(),
                                    b2.len(),
                                    pos
                                ),
                            );
                        }
                    }
                    other => ctx.count(&format!("foreign_file_resave_failed:{}:{}", f.tag(), other.class())),
                }
            }
        }
        if Self::nontrivial(&t.tree) {
            let mut d = Digest::new();
            d.str(&serde_json::to_string(&t.tree).unwrap_or_default());
            ctx.distinct.insert(d.finish());
            ctx.add("environment_pairs_compared_on_nontrivial_trees", t.envs.len() as u64 * FORMATS.len() as u64);
        }
    }

    fn shrink_candidates(&self, trace: &Value, _key: &str) -> Vec<Value> {
        let t: DetTrace = match serde_json::from_value(trace.clone()) {
            Ok(t) => t,
            Err(_) => return vec![],
        };
        let mut out = Vec::new();
        if t.envs.len() > 1 {
            for i in 0..t.envs.len() {
                let mut c = t.clone();
                c.envs = vec![t.envs[i]];
                out.push(c);
            }
        }
        for cand in crate::iosim::shrink_tree(&t.tree) {
            let mut c = t.clone();
            c.tree = cand;
            out.push(c);
        }
        out.into_iter().map(|t| serde_json::to_value(&t).unwrap()).collect()
    }

    fn distinct_rule(&self, _property: &str) -> String {
        "One evaluation is one call of a real serializer. Each run materialises one logical tree in the canonical environment and in 2-4 environments that differ only in nondeterminism or construction history (other Ref and per-map hash streams, permuted property insertion order, node-by-node inserts, built in another DOM then transferred or cloned in, extra properties added and removed, into_raw+from_raw, unrelated instances inserted and destroyed around it, a failed save of another selection or a successful save of another DOM earlier on the same thread, built-destroyed-and-built-again) and compares outcome class and bytes for binary x {LZ4, none, Zstd} and XML (default, WriteUnknown); then checks save(load(save(T))) == save(load(save(load(save(T))))). The same run indices are executed again in other worker processes under other per-process hash keys and compared by the orchestrator. distinct_nontrivial counts distinct logical trees that contain two same-class instances with different property sets, an alias or legacy property name, a SharedString or a Ref edge.".into()
    }

    fn assumptions(&self, _property: &str) -> Vec<String> {
        vec![
            "UniqueId properties in a tree are pairwise distinct and every environment ends in a fresh DOM, so no environment triggers id regeneration.".into(),
            "Only the Ok/Err class of a failing save is compared, not the error text.".into(),
            "rbx_reflection's database uses std HashMap whose keys come from the OS and are not owned by the simulator; any dependence of output on its order would show as a cross-process mismatch that does not replay.".into(),
        ]
    }
}

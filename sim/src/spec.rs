//! Serialisable workload descriptions: values, instance trees, and how they
//! are materialised into real `rbx_dom_weak` objects; canonical text of a real
//! DOM for comparisons.

use std::collections::BTreeMap;
use std::fmt::Write as _;

use rbx_dom_weak::types::*;
use rbx_dom_weak::{InstanceBuilder, WeakDom};
use serde::{Deserialize, Serialize};

use crate::prng::Rng;

#[derive(Clone, Debug, Serialize, Deserialize, PartialEq)]
pub enum RefT {
    Null,
    /// Index of a node; what the index space is depends on the engine.
    Node(u32),
    /// A referent value that exists in no DOM.
    Dangling(u64),
}

#[derive(Clone, Debug, Serialize, Deserialize, PartialEq)]
pub enum ValSpec {
    /// Value of type `ty` expanded deterministically from `s`.
    G { ty: String, s: u64 },
    Str(String),
    Bytes(Vec<u8>),
    Shared(Vec<u8>),
    Ref(RefT),
    ContentRef(RefT),
    Uid(u32, u32, i64),
    Bool(bool),
    I32(i32),
    Attrs(Vec<(String, ValSpec)>),
    Tags(Vec<String>),
}

#[derive(Clone, Debug, Serialize, Deserialize, PartialEq)]
pub struct NodeSpec {
    pub class: String,
    pub name: String,
    pub props: Vec<(String, ValSpec)>,
    pub children: Vec<NodeSpec>,
}

impl NodeSpec {
    pub fn count(&self) -> usize {
        1 + self.children.iter().map(|c| c.count()).sum::<usize>()
    }
    pub fn depth(&self) -> usize {
        1 + self.children.iter().map(|c| c.depth()).max().unwrap_or(0)
    }
    pub fn for_each<'a>(&'a self, f: &mut dyn FnMut(&'a NodeSpec)) {
        f(self);
        for c in &self.children {
            c.for_each(f);
        }
    }
    pub fn for_each_mut(&mut self, f: &mut dyn FnMut(&mut NodeSpec)) {
        f(self);
        for c in &mut self.children {
            c.for_each_mut(f);
        }
    }
}

pub const ALL_TYPES: &[&str] = &[
    "Axes", "BinaryString", "Bool", "BrickColor", "CFrame", "Color3", "Color3uint8",
    "ColorSequence", "ContentId", "Enum", "Faces", "Float32", "Float64", "Int32", "Int64",
    "NumberRange", "NumberSequence", "PhysicalProperties", "Ray", "Rect", "Ref", "Region3",
    "Region3int16", "SharedString", "String", "UDim", "UDim2", "Vector2", "Vector2int16",
    "Vector3", "Vector3int16", "OptionalCFrame", "Tags", "Attributes", "Font", "UniqueId",
    "MaterialColors", "SecurityCapabilities", "EnumItem", "Content",
];

pub const ATTR_TYPES: &[&str] = &[
    "Bool", "BrickColor", "Color3", "ColorSequence", "Int32", "Float32", "Float64",
    "NumberRange", "NumberSequence", "Rect", "BinaryString", "String", "UDim", "UDim2",
    "Vector2", "Vector3", "CFrame", "Font", "EnumItem",
];

const EDGE_F32: &[u32] = &[
    0x0000_0000, 0x8000_0000, 0x3f80_0000, 0xbf80_0000, 0x3f00_0000, 0x0080_0000, 0x0000_0001,
    0x7f7f_ffff, 0xff7f_ffff, 0x7f80_0000, 0xff80_0000, 0x7fc0_0000, 0xffc0_0001, 0x7f80_0001,
    0x4049_0fdb, 0x3dcc_cccd, 0x4b80_0000, 0x3380_0000,
];

fn f32v(r: &mut Rng) -> f32 {
    match r.below(10) {
        0..=3 => f32::from_bits(*r.pick(EDGE_F32)),
        4..=6 => (r.below(2001) as i64 - 1000) as f32 / 8.0,
        7 => r.below(256) as f32 / 255.0,
        _ => f32::from_bits(r.next_u64() as u32),
    }
}

fn f64v(r: &mut Rng) -> f64 {
    match r.below(8) {
        0 => 0.0,
        1 => -0.0,
        2 => f64::NAN,
        3 => f64::INFINITY,
        4 => f64::MIN_POSITIVE / 2.0,
        5 => (r.below(2001) as i64 - 1000) as f64 / 16.0,
        _ => f64::from_bits(r.next_u64()),
    }
}

fn i32v(r: &mut Rng) -> i32 {
    match r.below(6) {
        0 => 0,
        1 => i32::MIN,
        2 => i32::MAX,
        3 => -1,
        4 => r.below(1000) as i32,
        _ => r.next_u64() as i32,
    }
}

fn i64v(r: &mut Rng) -> i64 {
    match r.below(6) {
        0 => 0,
        1 => i64::MIN,
        2 => i64::MAX,
        3 => -1,
        4 => r.below(100000) as i64,
        _ => r.next_u64() as i64,
    }
}

fn i16v(r: &mut Rng) -> i16 {
    match r.below(4) {
        0 => 0,
        1 => i16::MIN,
        2 => i16::MAX,
        _ => r.next_u64() as i16,
    }
}

/// Lengths at which size fields and buffers change representation.
pub const BOUNDARY_LENS: &[usize] = &[127, 128, 255, 256, 257, 1023, 1024, 4095, 4096, 8191, 8192, 8193, 65535, 65536, 65537];

pub fn stringv(r: &mut Rng) -> String {
    if r.chance(1, 60) {
        let n = *r.pick(BOUNDARY_LENS);
        return std::iter::repeat('b').take(n).collect();
    }
    const FRAGS: &[&str] = &[
        "a", "Part", "hello world", "<", ">", "&", "\"", "'", "]]>", "<![CDATA[", "&amp;", "\n",
        "\t", " ", "é", "日本", "🦀", "\u{0}", "\u{1}", "\u{7f}", "\r\n", "null", "rbxassetid://",
        "0", "-1", "xxxxxxxxxxxxxxxxxxxxxxxxxxxxxxxxxxxxxxxx",
    ];
    match r.below(8) {
        0 => String::new(),
        1..=4 => {
            let n = r.range(1, 4);
            let mut s = String::new();
            for _ in 0..n {
                s.push_str(*r.pick(FRAGS));
            }
            s
        }
        5 => {
            let n = r.range(1, 24) as usize;
            (0..n).map(|_| (b'a' + r.below(26) as u8) as char).collect()
        }
        6 => {
            let n = r.range(100, 400) as usize;
            (0..n).map(|_| (b' ' + r.below(95) as u8) as char).collect()
        }
        _ => {
            let n = r.range(1, 8) as usize;
            (0..n)
                .filter_map(|_| char::from_u32(r.below(0x2fff) as u32))
                .collect()
        }
    }
}

pub fn bytesv(r: &mut Rng) -> Vec<u8> {
    if r.chance(1, 60) {
        let n = *r.pick(BOUNDARY_LENS);
        return r.bytes(n);
    }
    match r.below(6) {
        0 => Vec::new(),
        1 => vec![0],
        2 => vec![0xff, 0xfe, 0x80],
        3 => {
            let n = r.range(1, 16) as usize;
            r.bytes(n)
        }
        4 => {
            let n = r.range(200, 700) as usize;
            r.bytes(n)
        }
        _ => stringv(r).into_bytes(),
    }
}

fn v3(r: &mut Rng) -> Vector3 {
    Vector3::new(f32v(r), f32v(r), f32v(r))
}

fn v2(r: &mut Rng) -> Vector2 {
    Vector2::new(f32v(r), f32v(r))
}

fn color3(r: &mut Rng) -> Color3 {
    Color3::new(f32v(r), f32v(r), f32v(r))
}

fn cframe(r: &mut Rng) -> CFrame {
    let pos = v3(r);
    let m = match r.below(4) {
        0 => Matrix3::identity(),
        1 => {
            // One of the axis-aligned bases.
            const IDS: &[u8] = &[
                0x02, 0x03, 0x05, 0x06, 0x07, 0x09, 0x0a, 0x0c, 0x0d, 0x0e, 0x10, 0x11, 0x14, 0x15,
                0x17, 0x18, 0x19, 0x1b, 0x1c, 0x1e, 0x1f, 0x20, 0x22, 0x23,
            ];
            Matrix3::from_basic_rotation_id(*r.pick(IDS)).unwrap_or_else(|_| Matrix3::identity())
        }
        2 if r.chance(1, 2) => {
            // Rows drawn independently from the six unit axis vectors: reflections
            // and degenerate matrices (repeated or opposite rows) that look
            // axis-aligned but are not among the 24 basic rotations.
            let axis = |r: &mut Rng| {
                let k = r.below(6);
                let v = if k % 2 == 0 { 1.0 } else { -1.0 };
                match k / 2 {
                    0 => Vector3::new(v, 0.0, 0.0),
                    1 => Vector3::new(0.0, v, 0.0),
                    _ => Vector3::new(0.0, 0.0, v),
                }
            };
            match r.below(3) {
                0 => Matrix3::new(axis(r), axis(r), axis(r)),
                // The same with columns drawn independently (two columns may then
                // lie on one axis, which no permutation matrix allows).
                1 => Matrix3::new(axis(r), axis(r), axis(r)).transpose(),
                // Every entry drawn on its own from values that count as 0 or +-1.
                _ => {
                    let e = |r: &mut Rng| *r.pick(&[0.0f32, 0.0, 1.0, -1.0, f32::EPSILON / 2.0]);
                    Matrix3::new(
                        Vector3::new(e(r), e(r), e(r)),
                        Vector3::new(e(r), e(r), e(r)),
                        Vector3::new(e(r), e(r), e(r)),
                    )
                }
            }
        }
        _ => Matrix3::new(v3(r), v3(r), v3(r)),
    };
    CFrame::new(pos, m)
}

fn udim(r: &mut Rng) -> UDim {
    UDim::new(f32v(r), i32v(r))
}

const BRICK_NUMBERS: &[u16] = &[1, 5, 21, 23, 24, 26, 194, 199, 1001, 1004, 1032];

fn brick(r: &mut Rng) -> BrickColor {
    BrickColor::from_number(*r.pick(BRICK_NUMBERS))
        .or_else(|| BrickColor::from_number(194))
        .or_else(|| BrickColor::from_number(1))
        .expect("some brick colour exists")
}

fn font(r: &mut Rng) -> Font {
    let weights = [100u16, 200, 300, 400, 500, 600, 700, 800, 900];
    let mut f = Font::new(
        &stringv(r),
        FontWeight::from_u16(*r.pick(&weights)).unwrap_or_default(),
        FontStyle::from_u8(r.below(2) as u8).unwrap_or_default(),
    );
    if r.chance(1, 3) {
        f.cached_face_id = Some(stringv(r));
    }
    f
}

fn attrs_value(r: &mut Rng) -> Variant {
    let ty = *r.pick(ATTR_TYPES);
    gen_value_rng(ty, r)
}

pub fn gen_attributes(r: &mut Rng) -> Attributes {
    let mut a = Attributes::new();
    let n = r.below(5);
    for _ in 0..n {
        let mut name = stringv(r);
        if name.is_empty() || r.chance(1, 2) {
            name = format!("attr{}", r.below(6));
        }
        a.insert(name, attrs_value(r));
    }
    a
}

/// Expands `(ty, s)` into a value. Refs, SharedStrings, UniqueIds and Content
/// object references are handled by explicit `ValSpec` variants; here they get
/// inert defaults.
pub fn gen_value(ty: &str, s: u64) -> Variant {
    let mut r = Rng::new(s ^ crate::prng::tag(ty));
    gen_value_rng(ty, &mut r)
}

fn gen_value_rng(ty: &str, r: &mut Rng) -> Variant {
    match ty {
        "Axes" => Variant::Axes(Axes::from_bits(r.below(8) as u8).unwrap_or(Axes::empty())),
        "BinaryString" => Variant::BinaryString(bytesv(r).into()),
        "Bool" => Variant::Bool(r.chance(1, 2)),
        "BrickColor" => Variant::BrickColor(brick(r)),
        "CFrame" => Variant::CFrame(cframe(r)),
        "Color3" => Variant::Color3(color3(r)),
        "Color3uint8" => {
            Variant::Color3uint8(Color3uint8::new(r.below(256) as u8, r.below(256) as u8, r.below(256) as u8))
        }
        "ColorSequence" => {
            let n = r.below(4) as usize;
            Variant::ColorSequence(ColorSequence {
                keypoints: (0..n)
                    .map(|_| ColorSequenceKeypoint::new(f32v(r), color3(r)))
                    .collect(),
            })
        }
        "ContentId" => Variant::ContentId(ContentId::from(stringv(r))),
        "Enum" => Variant::Enum(Enum::from_u32(match r.below(4) {
            0 => 0,
            1 => u32::MAX,
            _ => r.below(2000) as u32,
        })),
        "Faces" => Variant::Faces(Faces::from_bits(r.below(64) as u8).unwrap_or(Faces::empty())),
        "Float32" => Variant::Float32(f32v(r)),
        "Float64" => Variant::Float64(f64v(r)),
        "Int32" => Variant::Int32(i32v(r)),
        "Int64" => Variant::Int64(i64v(r)),
        "NumberRange" => Variant::NumberRange(NumberRange::new(f32v(r), f32v(r))),
        "NumberSequence" => {
            let n = r.below(4) as usize;
            Variant::NumberSequence(NumberSequence {
                keypoints: (0..n)
                    .map(|_| NumberSequenceKeypoint::new(f32v(r), f32v(r), f32v(r)))
                    .collect(),
            })
        }
        "PhysicalProperties" => Variant::PhysicalProperties(if r.chance(1, 3) {
            PhysicalProperties::Default
        } else {
            PhysicalProperties::Custom(CustomPhysicalProperties {
                density: f32v(r),
                friction: f32v(r),
                elasticity: f32v(r),
                friction_weight: f32v(r),
                elasticity_weight: f32v(r),
            })
        }),
        "Ray" => Variant::Ray(Ray::new(v3(r), v3(r))),
        "Rect" => Variant::Rect(Rect::new(v2(r), v2(r))),
        "Ref" => Variant::Ref(Ref::none()),
        "Region3" => Variant::Region3(Region3::new(v3(r), v3(r))),
        "Region3int16" => Variant::Region3int16(Region3int16::new(
            Vector3int16::new(i16v(r), i16v(r), i16v(r)),
            Vector3int16::new(i16v(r), i16v(r), i16v(r)),
        )),
        "SharedString" => Variant::SharedString(SharedString::new(bytesv(r))),
        "String" => Variant::String(stringv(r)),
        "UDim" => Variant::UDim(udim(r)),
        "UDim2" => Variant::UDim2(UDim2::new(udim(r), udim(r))),
        "Vector2" => Variant::Vector2(v2(r)),
        "Vector2int16" => Variant::Vector2int16(Vector2int16::new(i16v(r), i16v(r))),
        "Vector3" => Variant::Vector3(v3(r)),
        "Vector3int16" => Variant::Vector3int16(Vector3int16::new(i16v(r), i16v(r), i16v(r))),
        "OptionalCFrame" => Variant::OptionalCFrame(if r.chance(1, 3) { None } else { Some(cframe(r)) }),
        "Tags" => {
            let mut t = Tags::new();
            let mut seen: Vec<String> = Vec::new();
            for _ in 0..r.below(5) {
                // now and then the same tag again
                let s = if !seen.is_empty() && r.chance(1, 4) { r.pick(&seen).clone() } else { stringv(r).replace('\0', "") };
                t.push(&s);
                seen.push(s);
            }
            Variant::Tags(t)
        }
        "Attributes" => Variant::Attributes(gen_attributes(r)),
        "Font" => Variant::Font(font(r)),
        "UniqueId" => Variant::UniqueId(UniqueId::new(r.next_u64() as u32, r.next_u64() as u32, (r.next_u64() >> 1) as i64)),
        "MaterialColors" => {
            let mut bytes = vec![0u8; 69];
            for b in bytes.iter_mut().skip(6) {
                *b = r.below(256) as u8;
            }
            Variant::MaterialColors(MaterialColors::decode(&bytes).unwrap_or_default())
        }
        "SecurityCapabilities" => Variant::SecurityCapabilities(SecurityCapabilities::from_bits(match r.below(3) {
            0 => 0,
            1 => u64::MAX,
            _ => r.next_u64(),
        })),
        "EnumItem" => Variant::EnumItem(EnumItem {
            ty: if r.chance(1, 2) { "Material".into() } else { stringv(r) },
            value: r.below(3000) as u32,
        }),
        "Content" => Variant::Content(match r.below(3) {
            0 => Content::none(),
            _ => Content::from_uri(stringv(r)),
        }),
        _ => Variant::Bool(false),
    }
}

/// Turns a value description into a real value. `resolve` maps a node index to
/// the referent chosen for it.
pub fn value_of(spec: &ValSpec, resolve: &dyn Fn(&RefT) -> Ref) -> Variant {
    match spec {
        ValSpec::G { ty, s } => gen_value(ty, *s),
        ValSpec::Str(s) => Variant::String(s.clone()),
        ValSpec::Bytes(b) => Variant::BinaryString(b.clone().into()),
        ValSpec::Shared(b) => Variant::SharedString(SharedString::new(b.clone())),
        ValSpec::Ref(t) => Variant::Ref(resolve(t)),
        ValSpec::ContentRef(t) => Variant::Content(Content::from_referent(resolve(t))),
        ValSpec::Uid(i, t, r) => Variant::UniqueId(UniqueId::new(*i, *t, *r)),
        ValSpec::Bool(b) => Variant::Bool(*b),
        ValSpec::I32(v) => Variant::Int32(*v),
        ValSpec::Attrs(list) => {
            let mut a = Attributes::new();
            for (k, v) in list {
                a.insert(k.clone(), value_of(v, resolve));
            }
            Variant::Attributes(a)
        }
        ValSpec::Tags(list) => {
            let mut t = Tags::new();
            for s in list {
                t.push(s);
            }
            Variant::Tags(t)
        }
    }
}

pub fn dangling_ref(v: u64) -> Ref {
    // High bit pattern that the Ref stream (counter in the low half, mixed
    // high half) cannot produce for small counters: low half is huge.
    let value: u128 = ((0xdead_0000_0000_0000u128 | v as u128) << 64) | (u64::MAX as u128 - v as u128);
    format!("{:032x}", value).parse().unwrap()
}

// ---------------------------------------------------------------------------
// Reflection catalog (sorted, so nothing depends on std HashMap order).

pub struct ClassInfo {
    pub name: String,
    /// (property name, value type name or "enum:<Name>")
    pub props: Vec<(String, String)>,
}

pub struct Catalog {
    pub classes: Vec<ClassInfo>,
    pub by_name: BTreeMap<String, usize>,
}

pub fn variant_type_name(t: VariantType) -> String {
    format!("{:?}", t)
}

pub fn build_catalog() -> Catalog {
    use rbx_reflection::{DataType, PropertyKind, PropertySerialization};
    let db = rbx_reflection_database::get();
    let mut names: Vec<&str> = db.classes.keys().map(|k| k.as_ref()).collect();
    names.sort();
    let mut classes = Vec::new();
    let mut by_name = BTreeMap::new();
    for name in names {
        let desc = &db.classes[name];
        // Own and inherited properties, all kinds: canonical, aliases and
        // migrating names are all legitimate keys in Instance.properties.
        let mut props: BTreeMap<String, String> = BTreeMap::new();
        for class in db.superclasses_iter(desc) {
            for (pname, p) in class.properties.iter() {
                let ty = match &p.data_type {
                    DataType::Value(t) => variant_type_name(*t),
                    DataType::Enum(e) => format!("enum:{}", e),
                    _ => continue,
                };
                let keep = match &p.kind {
                    PropertyKind::Canonical { serialization } => {
                        !matches!(serialization, PropertySerialization::DoesNotSerialize)
                    }
                    PropertyKind::Alias { .. } => true,
                    _ => false,
                };
                if keep {
                    props.entry(pname.to_string()).or_insert(ty);
                }
            }
        }
        by_name.insert(name.to_string(), classes.len());
        classes.push(ClassInfo {
            name: name.to_string(),
            props: props.into_iter().collect(),
        });
    }
    Catalog { classes, by_name }
}

// ---------------------------------------------------------------------------
// Tree generation.

pub struct TreeParams {
    pub max_nodes: usize,
    pub max_depth: usize,
    pub max_props: usize,
    /// Class palette for this run.
    pub palette: Vec<String>,
    /// Per mille probability that a property is drawn from the database for
    /// known classes (otherwise an invented name with an arbitrary type).
    pub known_prop_permille: u64,
    pub allow_uid: bool,
    pub shared_pool: Vec<Vec<u8>>,
}

pub fn gen_palette(r: &mut Rng, cat: &Catalog) -> Vec<String> {
    const FAVOURITES: &[&str] = &[
        "Folder", "Part", "Model", "StringValue", "ObjectValue", "Script", "ModuleScript",
        "TextLabel", "Frame", "MeshPart", "UnionOperation", "Terrain", "Workspace", "Lighting",
        "ParticleEmitter", "Beam", "Decal", "SpecialMesh", "WeldConstraint", "Sound", "Camera",
        "BillboardGui", "SurfaceGui", "UIGradient", "Attachment", "Humanoid", "Tool",
        "LocalizationTable", "BinaryStringValue", "CFrameValue", "Vector3Value", "Color3Value",
        "NumberValue", "IntValue", "BoolValue", "RayValue", "BrickColorValue",
    ];
    let n = r.range(1, 5) as usize;
    let mut out = Vec::new();
    for _ in 0..n {
        match r.below(10) {
            0..=5 => {
                let c = *r.pick(FAVOURITES);
                if cat.by_name.contains_key(c) {
                    out.push(c.to_string());
                } else {
                    out.push("Folder".to_string());
                }
            }
            6..=7 => out.push(cat.classes[r.usize_below(cat.classes.len())].name.clone()),
            _ => out.push(format!("VerifUnknown{}", r.below(3))),
        }
    }
    out
}

pub fn gen_valspec_of_type(r: &mut Rng, ty: &str, n_nodes: u32, p: &TreeParams) -> ValSpec {
    match ty {
        "Ref" => ValSpec::Ref(gen_reft(r, n_nodes)),
        "SharedString" => {
            if !p.shared_pool.is_empty() && r.chance(2, 3) {
                ValSpec::Shared(r.pick(&p.shared_pool).clone())
            } else {
                ValSpec::Shared(bytesv(r))
            }
        }
        "UniqueId" => {
            if p.allow_uid {
                ValSpec::Uid(r.below(1 << 20) as u32, r.below(1 << 20) as u32, (r.next_u64() >> 1) as i64)
            } else {
                ValSpec::Bool(false)
            }
        }
        "Content" if r.chance(1, 3) => ValSpec::ContentRef(gen_reft(r, n_nodes)),
        "String" if r.chance(1, 2) => ValSpec::Str(stringv(r)),
        _ => ValSpec::G { ty: ty.to_string(), s: r.next_u64() >> 16 },
    }
}

fn gen_reft(r: &mut Rng, n_nodes: u32) -> RefT {
    match r.below(8) {
        0 => RefT::Null,
        1 => RefT::Dangling(r.below(1000)),
        _ => RefT::Node(r.below(n_nodes.max(1) as u64) as u32),
    }
}

const INVENTED_PROPS: &[&str] = &[
    "VerifA", "VerifB", "VerifC", "Value", "Tags", "Attributes", "AttributesSerialize", "Name",
    "SourceAssetId", "size", "Size", "Color", "Color3uint8", "BrickColor", "Font", "FontFace",
    "UniqueId", "archivable", "Archivable",
];

fn gen_props(r: &mut Rng, class: &str, cat: &Catalog, n_nodes: u32, p: &TreeParams) -> Vec<(String, ValSpec)> {
    let mut out: Vec<(String, ValSpec)> = Vec::new();
    let n = r.below(p.max_props as u64 + 1) as usize;
    let info = cat.by_name.get(class).map(|&i| &cat.classes[i]);
    for _ in 0..n {
        let (name, ty): (String, String) = match info {
            Some(info) if !info.props.is_empty() && r.below(1000) < p.known_prop_permille => {
                let (n, t) = &info.props[r.usize_below(info.props.len())];
                (n.clone(), t.clone())
            }
            _ => {
                let name = if r.chance(1, 4) {
                    stringv(r)
                } else {
                    r.pick(INVENTED_PROPS).to_string()
                };
                (name, r.pick(ALL_TYPES).to_string())
            }
        };
        if name == "UniqueId" && !p.allow_uid {
            continue;
        }
        if out.iter().any(|(k, _)| *k == name) {
            continue;
        }
        let spec = if let Some(_e) = ty.strip_prefix("enum:") {
            ValSpec::G { ty: "Enum".into(), s: r.next_u64() >> 16 }
        } else {
            gen_valspec_of_type(r, &ty, n_nodes, p)
        };
        out.push((name, spec));
    }
    out
}

/// Generates a tree of at most `max_nodes` nodes. Node indices used by Ref
/// values are pre-order positions.
pub fn gen_tree(r: &mut Rng, cat: &Catalog, p: &TreeParams) -> NodeSpec {
    let n = r.range(1, p.max_nodes.max(1) as u64) as usize;
    // Random parent vector with a depth limit.
    let mut parent: Vec<usize> = vec![0; n];
    let mut depth: Vec<usize> = vec![1; n];
    let chainy = r.chance(1, 4);
    for i in 1..n {
        let mut pa = if chainy && r.chance(3, 4) { i - 1 } else { r.usize_below(i) };
        while depth[pa] >= p.max_depth {
            pa = parent[pa];
            if pa == 0 {
                break;
            }
        }
        parent[i] = pa;
        depth[i] = depth[pa] + 1;
    }
    let mut nodes: Vec<Option<NodeSpec>> = Vec::with_capacity(n);
    for i in 0..n {
        let class = r.pick(&p.palette).clone();
        let name = match r.below(4) {
            0 => class.clone(),
            1 => stringv(r),
            _ => format!("n{}", i),
        };
        let props = gen_props(r, &class, cat, n as u32, p);
        nodes.push(Some(NodeSpec { class, name, props, children: Vec::new() }));
    }
    // Assemble bottom-up; children keep index order.
    for i in (1..n).rev() {
        let node = nodes[i].take().unwrap();
        nodes[parent[i]].as_mut().unwrap().children.insert(0, node);
    }
    let mut root = nodes[0].take().unwrap();
    renumber_refs_preorder(&mut root, &parent);
    root
}

/// Generation numbered nodes by creation index; after assembly the pre-order
/// position may differ. Remap Ref targets so that `Node(k)` means pre-order k.
fn renumber_refs_preorder(root: &mut NodeSpec, parent: &[usize]) {
    let n = parent.len();
    // children lists in index order (as assembled)
    let mut kids: Vec<Vec<usize>> = vec![Vec::new(); n];
    for i in 1..n {
        kids[parent[i]].push(i);
    }
    let mut order = Vec::with_capacity(n);
    let mut stack = vec![0usize];
    while let Some(i) = stack.pop() {
        order.push(i);
        for &k in kids[i].iter().rev() {
            stack.push(k);
        }
    }
    let mut pos = vec![0u32; n];
    for (p, &i) in order.iter().enumerate() {
        pos[i] = p as u32;
    }
    root.for_each_mut(&mut |node| {
        for (_, v) in node.props.iter_mut() {
            remap_val(v, &pos);
        }
    });
}

fn remap_val(v: &mut ValSpec, pos: &[u32]) {
    match v {
        ValSpec::Ref(RefT::Node(k)) | ValSpec::ContentRef(RefT::Node(k)) => {
            if (*k as usize) < pos.len() {
                *k = pos[*k as usize];
            }
        }
        ValSpec::Attrs(list) => {
            for (_, x) in list {
                remap_val(x, pos);
            }
        }
        _ => {}
    }
}

// ---------------------------------------------------------------------------
// Materialisation.

/// Builds the tree under a fresh DataModel-less DOM: the tree's root becomes
/// the DOM root. Returns the DOM and the referents in pre-order.
pub fn materialise(tree: &NodeSpec) -> (WeakDom, Vec<Ref>) {
    let n = tree.count();
    let refs: Vec<Ref> = (0..n).map(|_| Ref::new()).collect();
    let mut next = 0usize;
    let builder = build_node(tree, &refs, &mut next);
    (WeakDom::new(builder), refs)
}

pub fn builder_of(tree: &NodeSpec, refs: &[Ref]) -> InstanceBuilder {
    let mut next = 0usize;
    build_node(tree, refs, &mut next)
}

fn build_node(node: &NodeSpec, refs: &[Ref], next: &mut usize) -> InstanceBuilder {
    let me = refs[*next];
    *next += 1;
    let resolve = |t: &RefT| -> Ref {
        match t {
            RefT::Null => Ref::none(),
            RefT::Node(k) => refs.get(*k as usize).copied().unwrap_or_else(Ref::none),
            RefT::Dangling(v) => dangling_ref(*v),
        }
    };
    let mut b = InstanceBuilder::new(node.class.as_str())
        .with_referent(me)
        .with_name(node.name.clone());
    for (k, v) in &node.props {
        b.add_property(k.as_str(), value_of(v, &resolve));
    }
    for c in &node.children {
        b.add_child(build_node(c, refs, next));
    }
    b
}

// ---------------------------------------------------------------------------
// Canonical text of a real DOM.

fn fbits32(out: &mut String, v: f32) {
    let _ = write!(out, "{:08x},", v.to_bits());
}

fn canon_v3(out: &mut String, v: &Vector3) {
    fbits32(out, v.x);
    fbits32(out, v.y);
    fbits32(out, v.z);
}

fn canon_cf(out: &mut String, c: &CFrame) {
    canon_v3(out, &c.position);
    canon_v3(out, &c.orientation.x);
    canon_v3(out, &c.orientation.y);
    canon_v3(out, &c.orientation.z);
}

/// Bit-exact canonical text of a value. Referents are rendered through `rmap`
/// (position in the DOM, or a marker), so two DOMs that differ only in
/// referent values compare equal.
pub fn canon_variant(out: &mut String, v: &Variant, rmap: &dyn Fn(Ref) -> String) {
    match v {
        Variant::Float32(f) => {
            let _ = write!(out, "f32:{:08x}", f.to_bits());
        }
        Variant::Float64(f) => {
            let _ = write!(out, "f64:{:016x}", f.to_bits());
        }
        Variant::Ref(r) => {
            let _ = write!(out, "ref:{}", rmap(*r));
        }
        Variant::Content(c) => match c.value() {
            ContentType::Object(r) => {
                let _ = write!(out, "content-obj:{}", rmap(*r));
            }
            other => {
                let _ = write!(out, "content:{:?}", other);
            }
        },
        Variant::Vector3(x) => {
            out.push_str("v3:");
            canon_v3(out, x)
        }
        Variant::Vector2(x) => {
            out.push_str("v2:");
            fbits32(out, x.x);
            fbits32(out, x.y);
        }
        Variant::CFrame(c) => {
            out.push_str("cf:");
            canon_cf(out, c)
        }
        Variant::OptionalCFrame(c) => match c {
            None => out.push_str("ocf:none"),
            Some(c) => {
                out.push_str("ocf:");
                canon_cf(out, c)
            }
        },
        Variant::Color3(c) => {
            out.push_str("c3:");
            fbits32(out, c.r);
            fbits32(out, c.g);
            fbits32(out, c.b);
        }
        Variant::ColorSequence(s) => {
            out.push_str("cs:");
            for k in &s.keypoints {
                fbits32(out, k.time);
                fbits32(out, k.color.r);
                fbits32(out, k.color.g);
                fbits32(out, k.color.b);
                out.push(';');
            }
        }
        Variant::NumberSequence(s) => {
            out.push_str("ns:");
            for k in &s.keypoints {
                fbits32(out, k.time);
                fbits32(out, k.value);
                fbits32(out, k.envelope);
                out.push(';');
            }
        }
        Variant::NumberRange(x) => {
            out.push_str("nr:");
            fbits32(out, x.min);
            fbits32(out, x.max);
        }
        Variant::PhysicalProperties(p) => match p {
            PhysicalProperties::Default => out.push_str("pp:default"),
            PhysicalProperties::Custom(c) => {
                out.push_str("pp:");
                fbits32(out, c.density);
                fbits32(out, c.friction);
                fbits32(out, c.elasticity);
                fbits32(out, c.friction_weight);
                fbits32(out, c.elasticity_weight);
            }
        },
        Variant::Ray(x) => {
            out.push_str("ray:");
            canon_v3(out, &x.origin);
            canon_v3(out, &x.direction);
        }
        Variant::Rect(x) => {
            out.push_str("rect:");
            fbits32(out, x.min.x);
            fbits32(out, x.min.y);
            fbits32(out, x.max.x);
            fbits32(out, x.max.y);
        }
        Variant::Region3(x) => {
            out.push_str("r3:");
            canon_v3(out, &x.min);
            canon_v3(out, &x.max);
        }
        Variant::UDim(x) => {
            out.push_str("ud:");
            fbits32(out, x.scale);
            let _ = write!(out, "{}", x.offset);
        }
        Variant::UDim2(x) => {
            out.push_str("ud2:");
            fbits32(out, x.x.scale);
            let _ = write!(out, "{},", x.x.offset);
            fbits32(out, x.y.scale);
            let _ = write!(out, "{}", x.y.offset);
        }
        Variant::SharedString(s) => {
            let _ = write!(out, "ss:{}:{:016x}", s.data().len(), crate::prng::digest_bytes(s.data()));
        }
        Variant::BinaryString(s) => {
            let b: &[u8] = s.as_ref();
            let _ = write!(out, "bs:{}:{:016x}", b.len(), crate::prng::digest_bytes(b));
        }
        Variant::Attributes(a) => {
            out.push_str("attrs:{");
            for (k, v) in a.iter() {
                let _ = write!(out, "{:?}=", k);
                canon_variant(out, v, rmap);
                out.push(';');
            }
            out.push('}');
        }
        other => {
            // No floats and no referents inside: Debug is exact.
            let _ = write!(out, "{:?}", other);
        }
    }
}

/// Canonical text of a whole DOM, reachable part, in child order. Properties
/// are sorted by name so that hash order cannot reach the text.
pub fn canon_dom(dom: &WeakDom) -> String {
    let mut order: std::collections::HashMap<Ref, usize> = std::collections::HashMap::new();
    let mut stack = vec![dom.root_ref()];
    let mut list = Vec::new();
    while let Some(r) = stack.pop() {
        if order.contains_key(&r) {
            continue;
        }
        if let Some(inst) = dom.get_by_ref(r) {
            order.insert(r, list.len());
            list.push(r);
            for c in inst.children().iter().rev() {
                stack.push(*c);
            }
        }
    }
    let rmap = |r: Ref| -> String {
        if r.is_none() {
            "null".into()
        } else if let Some(i) = order.get(&r) {
            format!("#{}", i)
        } else {
            "ext".into()
        }
    };
    let mut out = String::new();
    for (i, r) in list.iter().enumerate() {
        let inst = dom.get_by_ref(*r).unwrap();
        let _ = write!(
            out,
            "#{} class={:?} name={:?} parent={} children=[",
            i,
            inst.class.as_str(),
            inst.name,
            rmap(inst.parent())
        );
        for c in inst.children() {
            out.push_str(&rmap(*c));
            out.push(',');
        }
        out.push_str("] props={");
        let mut props: Vec<(&str, &Variant)> =
            inst.properties.iter().map(|(k, v)| (k.as_str(), v)).collect();
        props.sort_by(|a, b| a.0.cmp(b.0));
        for (k, v) in props {
            let _ = write!(out, "{:?}=", k);
            canon_variant(&mut out, v, &rmap);
            out.push(';');
        }
        out.push_str("}\n");
    }
    out
}

/// Canonical text in which UniqueId values are replaced by the ordinal of
/// their first appearance: decoders may regenerate colliding ids through
/// `UniqueId::now()`, whose process-wide state is not part of what C13 states.
pub fn canon_without_uid_values(dom: &WeakDom) -> String {
    let text = canon_dom(dom);
    let mut out = String::with_capacity(text.len());
    let mut seen: Vec<String> = Vec::new();
    let mut rest = text.as_str();
    while let Some(pos) = rest.find("UniqueId(UniqueId {") {
        let (head, tail) = rest.split_at(pos);
        out.push_str(head);
        let end = tail.find("})").map(|e| e + 2).unwrap_or(tail.len());
        let token = &tail[..end];
        let idx = match seen.iter().position(|s| s == token) {
            Some(i) => i,
            None => {
                seen.push(token.to_string());
                seen.len() - 1
            }
        };
        out.push_str(&format!("UniqueId#{}", idx));
        rest = &tail[end..];
    }
    out.push_str(rest);
    out
}

pub fn canon_digest(dom: &WeakDom) -> u64 {
    crate::prng::digest_bytes(canon_dom(dom).as_bytes())
}

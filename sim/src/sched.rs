//! Cooperative deterministic scheduler over real OS threads.
//!
//! Exactly one simulated thread holds the baton at any time. Every
//! synchronisation operation of the shimmed types in `rbx_types::verif` calls
//! into here; the scheduler then decides, from the run's PRNG (or from a
//! recorded schedule), which thread proceeds. The schedule actually taken is
//! the trace.

use std::cell::Cell;
use std::collections::BTreeMap;
use std::sync::{Condvar, Mutex};

use crate::prng::Rng;

thread_local! {
    static TID: Cell<Option<usize>> = const { Cell::new(None) };
}

#[derive(Clone, Copy, PartialEq, Debug)]
enum Status {
    NotStarted,
    Runnable,
    Blocked(usize),
    Finished,
}

#[derive(Clone, Debug, serde::Serialize, serde::Deserialize, PartialEq)]
pub enum Strategy {
    /// Uniform choice among runnable threads at every point.
    Random,
    /// Keep running the current thread; switch with probability num/1000.
    Sticky(u32),
    /// PCT-style: random priorities, `d` priority change points.
    Pct(u32),
    /// Replay a recorded list of choices.
    Replay,
}

/// Payload used to unwind simulated threads when a run is abandoned.
pub struct AbortRun;

struct State {
    active: bool,
    aborting: bool,
    n: usize,
    current: usize,
    status: Vec<Status>,
    owner: BTreeMap<usize, usize>,
    rng: Rng,
    strategy: Strategy,
    prio: Vec<u32>,
    change_points: Vec<usize>,
    choices: Vec<u8>,
    sites: Vec<(u8, &'static str)>,
    replay: Vec<u8>,
    steps: usize,
    step_cap: usize,
    switches: usize,
    deadlock: bool,
    step_cap_hit: bool,
    record_sites: bool,
}

static STATE: Mutex<Option<State>> = Mutex::new(None);
static CV: Condvar = Condvar::new();

fn lock() -> std::sync::MutexGuard<'static, Option<State>> {
    STATE.lock().unwrap_or_else(|e| e.into_inner())
}

#[derive(Debug, Default, Clone)]
pub struct Outcome {
    pub choices: Vec<u8>,
    pub sites: Vec<(u8, &'static str)>,
    pub steps: usize,
    pub switches: usize,
    pub deadlock: bool,
    pub step_cap_hit: bool,
    /// Per thread: `Some(message)` if the thread panicked (other than AbortRun).
    pub panics: Vec<Option<crate::panic::PanicInfo>>,
}

pub struct Config {
    pub seed: u64,
    pub strategy: Strategy,
    pub replay: Vec<u8>,
    pub step_cap: usize,
    pub record_sites: bool,
}

impl State {
    fn runnable(&self) -> Vec<usize> {
        (0..self.n)
            .filter(|&t| matches!(self.status[t], Status::Runnable | Status::NotStarted))
            .collect()
    }

    /// Picks the next thread to run. `me` is the thread making the call, if it
    /// is still runnable it is a candidate too.
    fn choose(&mut self) -> Option<usize> {
        let cands = self.runnable();
        if cands.is_empty() {
            return None;
        }
        let step = self.choices.len();
        let pick = if step < self.replay.len() {
            let want = self.replay[step] as usize;
            if cands.contains(&want) {
                want
            } else {
                cands[0]
            }
        } else {
            match self.strategy.clone() {
                Strategy::Replay => {
                    // Recorded list exhausted: keep running the current thread.
                    if cands.contains(&self.current) {
                        self.current
                    } else {
                        cands[0]
                    }
                }
                Strategy::Random => cands[self.rng.usize_below(cands.len())],
                Strategy::Sticky(p) => {
                    let stay = cands.contains(&self.current) && !self.rng.chance(p as u64, 1000);
                    if stay {
                        self.current
                    } else {
                        cands[self.rng.usize_below(cands.len())]
                    }
                }
                Strategy::Pct(_) => {
                    if self.change_points.contains(&step) && cands.contains(&self.current) {
                        let low = self.prio.iter().copied().min().unwrap_or(0);
                        self.prio[self.current] = low.saturating_sub(1);
                    }
                    *cands.iter().max_by_key(|&&t| self.prio[t]).unwrap()
                }
            }
        };
        self.choices.push(pick as u8);
        if pick != self.current {
            self.switches += 1;
        }
        self.current = pick;
        Some(pick)
    }
}

fn abort_if_needed(st: &State) {
    if st.aborting {
        std::panic::resume_unwind(Box::new(AbortRun));
    }
}

/// Blocks until the calling thread holds the baton (or the run is aborted).
fn wait_for_baton(mut g: std::sync::MutexGuard<'static, Option<State>>, me: usize) {
    loop {
        {
            let st = g.as_ref().unwrap();
            if st.aborting {
                drop(g);
                std::panic::resume_unwind(Box::new(AbortRun));
            }
            if st.current == me && matches!(st.status[me], Status::Runnable) {
                return;
            }
        }
        g = CV.wait(g).unwrap_or_else(|e| e.into_inner());
    }
}

fn in_sim() -> Option<usize> {
    TID.with(|t| t.get())
}

/// A scheduling point. Called with the baton held.
fn schedule_point(me: usize, site: &'static str) {
    let mut g = lock();
    let st = match g.as_mut() {
        Some(st) if st.active => st,
        _ => return,
    };
    if st.aborting {
        // Unwinding: let everything run freely so destructors can finish.
        if std::thread::panicking() {
            return;
        }
        drop(g);
        std::panic::resume_unwind(Box::new(AbortRun));
    }
    st.steps += 1;
    if st.record_sites {
        st.sites.push((me as u8, site));
    }
    if st.steps > st.step_cap {
        st.step_cap_hit = true;
        st.aborting = true;
        CV.notify_all();
        drop(g);
        std::panic::resume_unwind(Box::new(AbortRun));
    }
    let next = st.choose().expect("caller is runnable");
    if next != me {
        CV.notify_all();
        wait_for_baton(g, me);
    }
}

pub fn hook_yield(site: &'static str) {
    if let Some(me) = in_sim() {
        schedule_point(me, site);
    }
}

pub fn hook_mutex_acquire(id: usize) {
    let me = match in_sim() {
        Some(me) => me,
        None => return,
    };
    schedule_point(me, "Mutex::lock");
    loop {
        let mut g = lock();
        let st = match g.as_mut() {
            Some(st) if st.active => st,
            _ => return,
        };
        if st.aborting {
            if std::thread::panicking() {
                return;
            }
            drop(g);
            std::panic::resume_unwind(Box::new(AbortRun));
        }
        match st.owner.get(&id) {
            None => {
                st.owner.insert(id, me);
                return;
            }
            Some(&o) if o == me => {
                // Re-entrant lock: a real deadlock. Report it as such.
                st.deadlock = true;
                st.aborting = true;
                CV.notify_all();
                drop(g);
                std::panic::resume_unwind(Box::new(AbortRun));
            }
            Some(_) => {
                st.status[me] = Status::Blocked(id);
                st.steps += 1;
                if st.record_sites {
                    st.sites.push((me as u8, "Mutex::lock(blocked)"));
                }
                match st.choose() {
                    Some(_) => {
                        CV.notify_all();
                        wait_for_baton(g, me);
                        // Woken with the baton: status was set back to Runnable
                        // by the release; retry the acquisition.
                    }
                    None => {
                        st.deadlock = true;
                        st.aborting = true;
                        CV.notify_all();
                        drop(g);
                        std::panic::resume_unwind(Box::new(AbortRun));
                    }
                }
            }
        }
    }
}

pub fn hook_mutex_try_acquire(id: usize) -> Option<bool> {
    let me = in_sim()?;
    schedule_point(me, "Mutex::try_lock");
    let mut g = lock();
    let st = match g.as_mut() {
        Some(st) if st.active && !st.aborting => st,
        _ => return None,
    };
    if st.owner.contains_key(&id) {
        Some(false)
    } else {
        st.owner.insert(id, me);
        Some(true)
    }
}

pub fn hook_mutex_release(id: usize) {
    let me = match in_sim() {
        Some(me) => me,
        None => return,
    };
    let mut g = lock();
    let st = match g.as_mut() {
        Some(st) if st.active => st,
        _ => return,
    };
    if st.owner.get(&id) == Some(&me) {
        st.owner.remove(&id);
    }
    for t in 0..st.n {
        if st.status[t] == Status::Blocked(id) {
            st.status[t] = Status::Runnable;
        }
    }
}

/// An explicit scheduling point for harness-level operations.
pub fn harness_yield(site: &'static str) {
    hook_yield(site)
}

type Program = Box<dyn FnOnce() + Send + 'static>;

/// Runs the given thread programs under the scheduler and returns the
/// schedule taken.
pub fn run(cfg: Config, programs: Vec<Program>) -> Outcome {
    let n = programs.len();
    assert!(n > 0 && n < 200);
    let mut rng = Rng::new(cfg.seed);
    let mut prio: Vec<u32> = (0..n as u32).map(|i| 1000 + i).collect();
    rng.shuffle(&mut prio);
    let mut change_points = Vec::new();
    if let Strategy::Pct(d) = cfg.strategy {
        for _ in 0..d {
            change_points.push(rng.usize_below(cfg.step_cap.min(64).max(1)));
        }
    }
    {
        let mut g = lock();
        *g = Some(State {
            active: true,
            aborting: false,
            n,
            current: usize::MAX,
            status: vec![Status::NotStarted; n],
            owner: BTreeMap::new(),
            rng,
            strategy: cfg.strategy,
            prio,
            change_points,
            choices: Vec::new(),
            sites: Vec::new(),
            replay: cfg.replay,
            steps: 0,
            step_cap: cfg.step_cap,
            switches: 0,
            deadlock: false,
            step_cap_hit: false,
            record_sites: cfg.record_sites,
        });
    }

    let mut handles = Vec::with_capacity(n);
    for (t, program) in programs.into_iter().enumerate() {
        let h = std::thread::Builder::new()
            .name(format!("sim-{}", t))
            .stack_size(1 << 20)
            .spawn(move || {
                TID.with(|c| c.set(Some(t)));
                crate::env::set_sim_thread(true);
                let result = std::panic::catch_unwind(std::panic::AssertUnwindSafe(|| {
                    // Wait to be scheduled for the first time.
                    {
                        let mut g = lock();
                        g.as_mut().unwrap().status[t] = Status::Runnable;
                        CV.notify_all();
                        wait_for_baton(g, t);
                    }
                    program();
                }));
                let info = match result {
                    Ok(()) => None,
                    Err(payload) => {
                        if payload.is::<AbortRun>() {
                            None
                        } else {
                            Some(crate::panic::take_last().unwrap_or_else(|| {
                                crate::panic::PanicInfo::unknown()
                            }))
                        }
                    }
                };
                // Finish: hand the baton on.
                let mut g = lock();
                if let Some(st) = g.as_mut() {
                    st.status[t] = Status::Finished;
                    // A thread that dies holding a shim mutex: release it (the
                    // real guard was dropped by unwinding).
                    let held: Vec<usize> = st
                        .owner
                        .iter()
                        .filter(|(_, &o)| o == t)
                        .map(|(&k, _)| k)
                        .collect();
                    for id in held {
                        st.owner.remove(&id);
                        for u in 0..st.n {
                            if st.status[u] == Status::Blocked(id) {
                                st.status[u] = Status::Runnable;
                            }
                        }
                    }
                    if !st.aborting {
                        let all_done = st.status.iter().all(|s| *s == Status::Finished);
                        if !all_done && st.choose().is_none() {
                            st.deadlock = true;
                            st.aborting = true;
                        }
                    }
                    CV.notify_all();
                }
                TID.with(|c| c.set(None));
                crate::env::set_sim_thread(false);
                info
            })
            .expect("spawn sim thread");
        handles.push(h);
    }

    // Controller: wait until every thread has reported in, then hand the
    // baton to the first choice.
    {
        let mut g = lock();
        loop {
            let st = g.as_mut().unwrap();
            if st.status.iter().all(|s| *s != Status::NotStarted) {
                break;
            }
            g = CV.wait(g).unwrap_or_else(|e| e.into_inner());
        }
        let st = g.as_mut().unwrap();
        st.choose();
        CV.notify_all();
    }

    let mut panics = Vec::with_capacity(n);
    for h in handles {
        panics.push(h.join().unwrap_or(None));
    }

    let mut g = lock();
    let st = g.take().unwrap();
    Outcome {
        choices: st.choices,
        sites: st.sites,
        steps: st.steps,
        switches: st.switches,
        deadlock: st.deadlock,
        step_cap_hit: st.step_cap_hit,
        panics,
    }
}

//! Panic capture and call-site keys.
//!
//! A key is `panic|<repo-relative file>|<function>|<message with numbers
//! replaced by #>`; never a line number, so unrelated edits do not change it.

use std::cell::RefCell;
use std::collections::BTreeMap;
use std::sync::Mutex;

#[derive(Clone, Debug)]
pub struct PanicInfo {
    pub key: String,
    pub location: String,
    pub message: String,
}

impl PanicInfo {
    pub fn unknown() -> PanicInfo {
        PanicInfo {
            key: "panic|?|?|?".into(),
            location: "?".into(),
            message: "?".into(),
        }
    }
}

thread_local! {
    static LAST: RefCell<Option<PanicInfo>> = const { RefCell::new(None) };
}

// location "file:line:col" -> (file rel, fn)
static SITE_CACHE: Mutex<BTreeMap<String, (String, String)>> = Mutex::new(BTreeMap::new());

pub fn normalise_message(msg: &str) -> String {
    // Numbers become '#', quoted text becomes '_' (it is usually data from the
    // input), so that one call site gives one key.
    let mut out = String::with_capacity(msg.len().min(160));
    let mut in_digits = false;
    let mut quote: Option<char> = None;
    for ch in msg.chars() {
        if out.len() >= 140 {
            break;
        }
        if let Some(q) = quote {
            if ch == q {
                quote = None;
                out.push('_');
                out.push(q);
            }
            continue;
        }
        if ch == '"' {
            quote = Some(ch);
            out.push(ch);
            in_digits = false;
            continue;
        }
        if ch.is_ascii_digit() {
            if !in_digits {
                out.push('#');
                in_digits = true;
            }
        } else {
            in_digits = false;
            if ch == '\n' || ch == '\r' || ch == '|' {
                out.push(' ');
            } else if ch.is_control() {
                out.push('?');
            } else {
                out.push(ch);
            }
        }
    }
    out
}

fn strip_generics(name: &str) -> String {
    // Drop everything inside <...> and any closure suffixes; keep last segment.
    let mut depth = 0i32;
    let mut flat = String::new();
    for ch in name.chars() {
        match ch {
            '<' => depth += 1,
            '>' => depth -= 1,
            _ if depth == 0 => flat.push(ch),
            _ => {}
        }
    }
    let is_hash = |p: &str| {
        p.len() == 17 && p.starts_with('h') && p[1..].chars().all(|c| c.is_ascii_hexdigit())
    };
    let parts: Vec<&str> = flat
        .split("::")
        .map(|p| p.trim())
        .filter(|p| !p.is_empty() && !p.starts_with('{') && !is_hash(p))
        .collect();
    parts.last().map(|s| s.trim().to_string()).unwrap_or_else(|| "?".into())
}

/// Finds the first backtrace frame that lies under /repo.
fn repo_frame() -> Option<(String, String)> {
    let bt = std::backtrace::Backtrace::force_capture().to_string();
    let mut last_fn = String::new();
    for line in bt.lines() {
        let t = line.trim_start();
        if let Some(rest) = t.strip_prefix("at ") {
            if let Some(idx) = rest.find("/repo/") {
                let path = &rest[idx + 6..];
                let file = path.split(':').next().unwrap_or(path).to_string();
                return Some((file, strip_generics(&last_fn)));
            }
        } else if let Some(pos) = t.find(": ") {
            // "  12: crate::module::function"
            if t[..pos].chars().all(|c| c.is_ascii_digit()) {
                last_fn = t[pos + 2..].to_string();
            }
        }
    }
    None
}

pub fn install_hook() {
    std::panic::set_hook(Box::new(|info| {
        let message = if let Some(s) = info.payload().downcast_ref::<&str>() {
            s.to_string()
        } else if let Some(s) = info.payload().downcast_ref::<String>() {
            s.clone()
        } else {
            "<non-string payload>".to_string()
        };
        let location = info
            .location()
            .map(|l| format!("{}:{}:{}", l.file(), l.line(), l.column()))
            .unwrap_or_else(|| "?".into());
        let site = {
            let cached = SITE_CACHE
                .lock()
                .unwrap_or_else(|e| e.into_inner())
                .get(&location)
                .cloned();
            match cached {
                Some(v) => v,
                None => {
                    let v = repo_frame().unwrap_or_else(|| {
                        let file = info
                            .location()
                            .map(|l| l.file().to_string())
                            .unwrap_or_else(|| "?".into());
                        (file, "?".into())
                    });
                    SITE_CACHE
                        .lock()
                        .unwrap_or_else(|e| e.into_inner())
                        .insert(location.clone(), v.clone());
                    v
                }
            }
        };
        let key = format!("panic|{}|{}|{}", site.0, site.1, normalise_message(&message));
        LAST.with(|l| {
            *l.borrow_mut() = Some(PanicInfo {
                key,
                location,
                message: message.chars().take(300).collect(),
            })
        });
    }));
}

pub fn take_last() -> Option<PanicInfo> {
    LAST.with(|l| l.borrow_mut().take())
}

/// Runs `f`, turning a panic into its call-site key.
pub fn catch<T>(f: impl FnOnce() -> T) -> Result<T, PanicInfo> {
    match std::panic::catch_unwind(std::panic::AssertUnwindSafe(f)) {
        Ok(v) => Ok(v),
        Err(_) => Err(take_last().unwrap_or_else(PanicInfo::unknown)),
    }
}

//! iosim — the reader/writer arguments of the codecs are the "network and
//! disk" of this library; a crash is EOF, an error or a damaged byte at an
//! arbitrary offset. Decides C13.

use std::io::{self, Read, Write};

use rbx_dom_weak::types::{Attributes, Ref, Variant};
use rbx_dom_weak::WeakDom;
use serde::{Deserialize, Serialize};
use serde_json::Value;

use crate::engine::{Engine, RunCtx};
use crate::prng::{Digest, Rng};
use crate::spec::{self, Catalog, NodeSpec, RefT, TreeParams, ValSpec};

pub const ALLOC_REQ_CEILING: usize = 64 << 20;
pub const ALLOC_PEAK_CEILING: usize = 256 << 20;

#[derive(Clone, Copy, Debug, Serialize, Deserialize, PartialEq, Eq, Hash)]
pub enum Format {
    BinLz4,
    BinNone,
    BinZstd,
    Xml,
    XmlUnknown,
    Attr,
    /// `NoReflection` on both sides: names and types exactly as in the text.
    XmlNoReflection,
    /// `ErrorOnUnknown` on both sides.
    XmlStrict,
}

impl Format {
    pub fn is_bin(self) -> bool {
        matches!(self, Format::BinLz4 | Format::BinNone | Format::BinZstd)
    }
    pub fn is_xml(self) -> bool {
        matches!(self, Format::Xml | Format::XmlUnknown | Format::XmlNoReflection | Format::XmlStrict)
    }
    pub fn tag(self) -> &'static str {
        match self {
            Format::BinLz4 => "binary/lz4",
            Format::BinNone => "binary/none",
            Format::BinZstd => "binary/zstd",
            Format::Xml => "xml",
            Format::XmlUnknown => "xml/unknown",
            Format::Attr => "attributes",
            Format::XmlNoReflection => "xml/noreflection",
            Format::XmlStrict => "xml/strict",
        }
    }
}

#[derive(Clone, Debug, Serialize, Deserialize, PartialEq)]
pub enum Workload {
    Dom { tree: NodeSpec },
    Attr { attrs: Vec<(String, ValSpec)> },
    /// Raw bytes expanded from a seed (entirely random file).
    Random { len: u32, seed: u64, valid_header: bool },
    /// Literal file contents.
    Literal { bytes: Vec<u8> },
    /// A chain of `depth` nested Folders (binary: generated DOM; XML: raw
    /// unindented text).
    DeepChain { depth: u32 },
}

#[derive(Clone, Debug, Serialize, Deserialize, PartialEq)]
pub struct ReadPlan {
    /// 0 = as much as asked, 1 = one byte per call, 2 = random short reads.
    pub mode: u8,
    pub intr_permille: u16,
    pub seed: u64,
}

#[derive(Clone, Debug, Serialize, Deserialize, PartialEq)]
pub struct WritePlan {
    /// 0 = accept everything, 2 = random short writes.
    pub mode: u8,
    pub intr_permille: u16,
    pub seed: u64,
}

#[derive(Clone, Debug, Serialize, Deserialize, PartialEq)]
pub enum Edit {
    Flip { pos: u32, bit: u8 },
    Subst { pos: u32, val: u8 },
    ZeroRange {
        pos: u32,
        len: u32,
        #[serde(default)]
        fill: u8,
    },
    DupRange { pos: u32, len: u32 },
    DropRange { pos: u32, len: u32 },
    Insert { pos: u32, bytes: Vec<u8> },
    /// Replace the `which`-th length-like field by a hostile value.
    LenEdit { which: u32, how: u8 },
    /// Binary chunk list surgery: 0 dup, 1 drop, 2 swap, 3 move-to-front.
    ChunkOp { op: u8, i: u32, j: u32 },
    /// Copy a range of another generated file of the same format over this one.
    Splice { other_seed: u64, src: u32, len: u32, dst: u32, snap: bool },
    /// Keep `keep` bytes, then `len` random bytes.
    RandomTail { keep: u32, len: u32, seed: u64 },
    /// Structured XML edit on the `which`-th element (see `apply_xml_edit`).
    Xml { op: u8, which: u32, arg: u32 },
    /// Uncompressed binary: set the wire type byte of the `which`-th PROP chunk.
    PropType { which: u32, ty: u8 },
    /// Uncompressed binary: rename the property of the `which`-th PROP chunk.
    PropRename { which: u32, name: u8 },
    /// Uncompressed binary: rename the class of the `which`-th INST chunk.
    InstRename { which: u32, class: u8 },
    /// Uncompressed binary: change the instance count of the `which`-th INST
    /// chunk (how: 0 -> zero, 1 -> one, 2 -> n-1, 3 -> n+1, 4 -> 2n, 5 -> huge).
    InstCount { which: u32, how: u8 },
}

#[derive(Clone, Debug, Serialize, Deserialize, PartialEq)]
pub enum Scenario {
    /// O3: every strict prefix is rejected. `only` narrows to one offset.
    Prefixes { only: Option<u32>, stride: u32 },
    /// O4: benign delivery gives the same result as a slice.
    Delivery { plan: ReadPlan },
    /// O5: hard read error at `at` (per mille of the file length if `rel`).
    ReadErr { at: u32, kind: u8, plan: ReadPlan },
    /// O6 benign: short / interrupted writes lose and duplicate nothing.
    WriteBenign { plan: WritePlan },
    /// O6 hard: write error (or Ok(0)) at every offset, or only at `only`.
    WriteErr { only: Option<u32>, kind: u8, zero: bool, stride: u32, plan: WritePlan },
    /// O7: save interrupted at `at`, disk keeps whole sectors below it.
    Crash { at: u32, sector: u32 },
    /// O1/O2/O4 on damaged bytes.
    Damage { edits: Vec<Edit>, plan: ReadPlan },
    /// Probe only: BufWriter hides a failing final flush (not asserted).
    BufWriterProbe { at: u32 },
}

#[derive(Clone, Debug, Serialize, Deserialize, PartialEq)]
pub struct IoTrace {
    pub format: Format,
    pub workload: Workload,
    pub scenario: Scenario,
}

// ---------------------------------------------------------------------------
// Simulated reader / writer.

const ERR_KINDS: &[io::ErrorKind] = &[
    io::ErrorKind::Other,
    io::ErrorKind::WouldBlock,
    io::ErrorKind::TimedOut,
    io::ErrorKind::BrokenPipe,
    io::ErrorKind::InvalidData,
    io::ErrorKind::UnexpectedEof,
    io::ErrorKind::PermissionDenied,
    io::ErrorKind::OutOfMemory,
];

fn err_kind(k: u8) -> io::ErrorKind {
    ERR_KINDS[k as usize % ERR_KINDS.len()]
}

#[derive(Default, Clone, Debug)]
pub struct Fired {
    pub short: u32,
    pub intr: u32,
    pub first_intr: bool,
    pub eof: bool,
    pub err: bool,
    pub zero: bool,
    pub step_cap: bool,
    pub calls: u32,
    pub consumed_at_first_fault: Option<usize>,
}

pub struct SimReader<'a> {
    data: &'a [u8],
    pos: usize,
    eof_at: usize,
    err_at: Option<(usize, io::ErrorKind)>,
    mode: u8,
    intr: u16,
    rng: Rng,
    consecutive_intr: u32,
    sticky: bool,
    cap: u32,
    pub fired: Fired,
}

impl<'a> SimReader<'a> {
    pub fn new(data: &'a [u8], plan: &ReadPlan) -> Self {
        SimReader {
            data,
            pos: 0,
            eof_at: data.len(),
            err_at: None,
            mode: plan.mode,
            intr: plan.intr_permille,
            rng: Rng::new(plan.seed),
            consecutive_intr: 0,
            sticky: false,
            cap: (4 * data.len() + 4096) as u32,
            fired: Fired::default(),
        }
    }
    pub fn eof_at(mut self, k: usize) -> Self {
        self.eof_at = k.min(self.data.len());
        self
    }
    pub fn err_at(mut self, k: usize, kind: io::ErrorKind) -> Self {
        self.err_at = Some((k, kind));
        self
    }
    fn mark(&mut self) {
        if self.fired.consumed_at_first_fault.is_none() {
            self.fired.consumed_at_first_fault = Some(self.pos);
        }
    }
}

impl Read for SimReader<'_> {
    fn read(&mut self, buf: &mut [u8]) -> io::Result<usize> {
        self.fired.calls += 1;
        if self.fired.calls > self.cap {
            self.fired.step_cap = true;
            return Err(io::Error::new(io::ErrorKind::Other, "rbxsim: reader step cap"));
        }
        if buf.is_empty() {
            return Ok(0);
        }
        if self.sticky {
            let kind = self.err_at.map(|e| e.1).unwrap_or(io::ErrorKind::Other);
            return Err(io::Error::new(kind, "rbxsim: injected read error (sticky)"));
        }
        if self.intr > 0 && self.consecutive_intr < 2 && self.rng.below(1000) < self.intr as u64 {
            self.consecutive_intr += 1;
            self.fired.intr += 1;
            if self.fired.calls == 1 {
                self.fired.first_intr = true;
            }
            self.mark();
            return Err(io::Error::new(io::ErrorKind::Interrupted, "rbxsim: EINTR"));
        }
        self.consecutive_intr = 0;
        let mut limit = self.eof_at;
        if let Some((k, kind)) = self.err_at {
            if self.pos >= k {
                self.sticky = true;
                self.fired.err = true;
                self.mark();
                return Err(io::Error::new(kind, "rbxsim: injected read error"));
            }
            limit = limit.min(k);
        }
        if self.pos >= limit {
            if limit < self.data.len() && !self.fired.eof {
                self.fired.eof = true;
                self.mark();
            }
            return Ok(0);
        }
        let avail = (limit - self.pos).min(buf.len());
        let n = match self.mode {
            0 => avail,
            1 => 1,
            _ => 1 + self.rng.usize_below(avail),
        };
        if n < avail {
            self.fired.short += 1;
            self.mark();
        }
        buf[..n].copy_from_slice(&self.data[self.pos..self.pos + n]);
        self.pos += n;
        Ok(n)
    }
}

pub struct SimWriter {
    pub disk: Vec<u8>,
    err_at: Option<(usize, io::ErrorKind)>,
    zero_at: Option<usize>,
    mode: u8,
    intr: u16,
    rng: Rng,
    consecutive_intr: u32,
    sticky: bool,
    cap: u32,
    pub fired: Fired,
}

impl SimWriter {
    pub fn new(plan: &WritePlan) -> Self {
        SimWriter {
            disk: Vec::new(),
            err_at: None,
            zero_at: None,
            mode: plan.mode,
            intr: plan.intr_permille,
            rng: Rng::new(plan.seed),
            consecutive_intr: 0,
            sticky: false,
            cap: 50_000_000,
            fired: Fired::default(),
        }
    }
    pub fn err_at(mut self, k: usize, kind: io::ErrorKind) -> Self {
        self.err_at = Some((k, kind));
        self
    }
    pub fn zero_at(mut self, k: usize) -> Self {
        self.zero_at = Some(k);
        self
    }
}

impl Write for SimWriter {
    fn write(&mut self, buf: &[u8]) -> io::Result<usize> {
        self.fired.calls += 1;
        if self.fired.calls > self.cap {
            self.fired.step_cap = true;
            return Err(io::Error::new(io::ErrorKind::Other, "rbxsim: writer step cap"));
        }
        if buf.is_empty() {
            return Ok(0);
        }
        if self.sticky {
            let kind = self.err_at.map(|e| e.1).unwrap_or(io::ErrorKind::Other);
            return Err(io::Error::new(kind, "rbxsim: injected write error (sticky)"));
        }
        if self.intr > 0 && self.consecutive_intr < 2 && self.rng.below(1000) < self.intr as u64 {
            self.consecutive_intr += 1;
            self.fired.intr += 1;
            return Err(io::Error::new(io::ErrorKind::Interrupted, "rbxsim: EINTR"));
        }
        self.consecutive_intr = 0;
        let pos = self.disk.len();
        let mut avail = buf.len();
        if let Some(k) = self.zero_at {
            if pos >= k {
                self.fired.zero = true;
                return Ok(0);
            }
            avail = avail.min(k - pos);
        }
        if let Some((k, kind)) = self.err_at {
            if pos >= k {
                self.sticky = true;
                self.fired.err = true;
                return Err(io::Error::new(kind, "rbxsim: injected write error"));
            }
            avail = avail.min(k - pos);
        }
        let n = match self.mode {
            0 => avail,
            _ => 1 + self.rng.usize_below(avail),
        };
        if n < buf.len() {
            self.fired.short += 1;
        }
        self.disk.extend_from_slice(&buf[..n]);
        Ok(n)
    }

    fn flush(&mut self) -> io::Result<()> {
        if self.sticky {
            let kind = self.err_at.map(|e| e.1).unwrap_or(io::ErrorKind::Other);
            return Err(io::Error::new(kind, "rbxsim: injected write error (flush)"));
        }
        Ok(())
    }
}

// ---------------------------------------------------------------------------
// Codec wrappers.

fn xml_decode_options(format: Format) -> rbx_xml::DecodeOptions<'static> {
    match format {
        Format::XmlUnknown => rbx_xml::DecodeOptions::new()
            .property_behavior(rbx_xml::DecodePropertyBehavior::ReadUnknown),
        Format::XmlNoReflection => rbx_xml::DecodeOptions::new()
            .property_behavior(rbx_xml::DecodePropertyBehavior::NoReflection),
        Format::XmlStrict => rbx_xml::DecodeOptions::new()
            .property_behavior(rbx_xml::DecodePropertyBehavior::ErrorOnUnknown),
        _ => rbx_xml::DecodeOptions::new(),
    }
}

fn xml_encode_options(format: Format) -> rbx_xml::EncodeOptions<'static> {
    match format {
        Format::XmlUnknown => rbx_xml::EncodeOptions::new()
            .property_behavior(rbx_xml::EncodePropertyBehavior::WriteUnknown),
        Format::XmlNoReflection => rbx_xml::EncodeOptions::new()
            .property_behavior(rbx_xml::EncodePropertyBehavior::NoReflection),
        Format::XmlStrict => rbx_xml::EncodeOptions::new()
            .property_behavior(rbx_xml::EncodePropertyBehavior::ErrorOnUnknown),
        _ => rbx_xml::EncodeOptions::new(),
    }
}

pub enum Decoded {
    Dom(WeakDom),
    Attrs(Attributes),
}

impl Decoded {
    pub fn digest(&self) -> u64 {
        match self {
            Decoded::Dom(d) => crate::prng::digest_bytes(spec::canon_without_uid_values(d).as_bytes()),
            Decoded::Attrs(a) => {
                let mut s = String::new();
                spec::canon_variant(&mut s, &Variant::Attributes(a.clone()), &|_| "?".into());
                crate::prng::digest_bytes(s.as_bytes())
            }
        }
    }
}

pub fn decode_raw<R: Read>(format: Format, reader: R) -> Result<Decoded, String> {
    match format {
        Format::BinLz4 | Format::BinNone | Format::BinZstd => rbx_binary::from_reader(reader)
            .map(Decoded::Dom)
            .map_err(|e| e.to_string()),
        Format::Xml | Format::XmlUnknown | Format::XmlNoReflection | Format::XmlStrict => {
            rbx_xml::from_reader(reader, xml_decode_options(format))
                .map(Decoded::Dom)
                .map_err(|e| e.to_string())
        }
        Format::Attr => Attributes::from_reader(reader)
            .map(Decoded::Attrs)
            .map_err(|e| e.to_string()),
    }
}

pub enum Source {
    Dom(WeakDom, Vec<Ref>),
    Attrs(Attributes),
}

pub fn encode_raw<W: Write>(format: Format, src: &Source, writer: W) -> Result<(), String> {
    match (format, src) {
        (Format::BinLz4 | Format::BinNone | Format::BinZstd, Source::Dom(dom, roots)) => {
            let c = match format {
                Format::BinLz4 => rbx_binary::CompressionType::Lz4,
                Format::BinNone => rbx_binary::CompressionType::None,
                _ => rbx_binary::CompressionType::Zstd,
            };
            rbx_binary::Serializer::new()
                .compression_type(c)
                .serialize(writer, dom, roots)
                .map_err(|e| e.to_string())
        }
        (f, Source::Dom(dom, roots)) if f.is_xml() => {
            rbx_xml::to_writer(writer, dom, roots, xml_encode_options(format)).map_err(|e| e.to_string())
        }
        (Format::Attr, Source::Attrs(a)) => a.to_writer(writer).map_err(|e| e.to_string()),
        _ => Err("rbxsim: format/workload mismatch".into()),
    }
}

#[derive(Clone, Debug, PartialEq)]
pub enum Out {
    Ok(u64),
    Err(String),
    Panic(String),
    Hang,
}

impl Out {
    fn class(&self) -> &'static str {
        match self {
            Out::Ok(_) => "ok",
            Out::Err(_) => "err",
            Out::Panic(_) => "panic",
            Out::Hang => "hang",
        }
    }
    fn same_class_and_value(&self, other: &Out) -> bool {
        match (self, other) {
            (Out::Ok(a), Out::Ok(b)) => a == b,
            (Out::Err(_), Out::Err(_)) => true,
            _ => false,
        }
    }
}

// ---------------------------------------------------------------------------
// Binary structure walker — for *targeting* faults and classifying where a
// fault landed. It is not an oracle.

#[derive(Clone, Debug)]
pub struct ChunkSpan {
    pub name: [u8; 4],
    pub start: usize,
    pub payload: usize,
    pub end: usize,
    pub compressed: bool,
}

pub fn walk_chunks(file: &[u8]) -> Vec<ChunkSpan> {
    let mut out = Vec::new();
    let mut pos = 32usize;
    while pos + 16 <= file.len() {
        let mut name = [0u8; 4];
        name.copy_from_slice(&file[pos..pos + 4]);
        let clen = u32::from_le_bytes(file[pos + 4..pos + 8].try_into().unwrap()) as usize;
        let len = u32::from_le_bytes(file[pos + 8..pos + 12].try_into().unwrap()) as usize;
        let body = if clen == 0 { len } else { clen };
        let end = pos.saturating_add(16).saturating_add(body);
        if end > file.len() {
            break;
        }
        out.push(ChunkSpan { name, start: pos, payload: pos + 16, end, compressed: clen != 0 });
        pos = end;
        if &name == b"END\0" {
            break;
        }
    }
    out
}

fn wants_foreign_metadata(w: &Workload) -> bool {
    match w {
        Workload::Dom { tree } => (tree.props.len() + tree.children.len() + tree.name.len()) % 3 == 0,
        _ => false,
    }
}

/// Inserts a META chunk before the first chunk (binary) or <Meta>/<External>
/// elements after the root start tag (XML). Returns None if the file has no
/// such place.
fn with_foreign_metadata(format: Format, file: &[u8]) -> Option<Vec<u8>> {
    if format.is_bin() {
        if file.len() < 32 {
            return None;
        }
        let mut payload = Vec::new();
        payload.extend_from_slice(&2u32.to_le_bytes());
        for (k, v) in [("ExplicitAutoJoints", "true"), ("VerifNote", "")] {
            payload.extend_from_slice(&(k.len() as u32).to_le_bytes());
            payload.extend_from_slice(k.as_bytes());
            payload.extend_from_slice(&(v.len() as u32).to_le_bytes());
            payload.extend_from_slice(v.as_bytes());
        }
        let mut out = file[..32].to_vec();
        out.extend_from_slice(b"META");
        out.extend_from_slice(&0u32.to_le_bytes());
        out.extend_from_slice(&(payload.len() as u32).to_le_bytes());
        out.extend_from_slice(&0u32.to_le_bytes());
        out.extend_from_slice(&payload);
        out.extend_from_slice(&file[32..]);
        Some(out)
    } else if format.is_xml() {
        let tags = scan_xml_tags(file);
        let root = tags.iter().find(|t| !t.closing && t.name == "roblox")?;
        let mut out = file[..root.end].to_vec();
        out.extend_from_slice(b"<Meta name=\"ExplicitAutoJoints\">true</Meta><External>null</External><External>nil</External>");
        out.extend_from_slice(&file[root.end..]);
        Some(out)
    } else {
        None
    }
}

/// Length up to which a prefix is "truncated" in the property's sense: the end
/// of the END chunk (binary) or of the closing tag (XML). Bytes after that
/// (trailing whitespace, padding) carry no content, so a prefix that keeps the
/// whole terminator is not required to be rejected.
fn required_len(format: Format, file: &[u8]) -> usize {
    if format.is_bin() {
        match walk_chunks(file).last() {
            Some(c) if &c.name == b"END\0" => c.end.min(file.len()),
            _ => file.len(),
        }
    } else if format.is_xml() {
        let mut n = file.len();
        while n > 0 && file[n - 1].is_ascii_whitespace() {
            n -= 1;
        }
        n
    } else {
        file.len()
    }
}

fn location_class(format: Format, file: &[u8], off: usize) -> String {
    if format.is_bin() {
        if off < 32 {
            return "header".into();
        }
        for c in walk_chunks(file) {
            if off >= c.start && off < c.end {
                let name = String::from_utf8_lossy(&c.name).trim_end_matches('\0').to_string();
                let name = if ["META", "SSTR", "INST", "PROP", "PRNT", "END"].contains(&name.as_str()) { name } else { "other".to_string() };
                if off < c.payload {
                    return format!("{}:chunk-header", name);
                }
                if &c.name == b"PROP" && !c.compressed {
                    // type_id u32, name_len u32, name, wire type byte
                    let p = c.payload;
                    if p + 8 <= c.end {
                        let nl = u32::from_le_bytes(file[p + 4..p + 8].try_into().unwrap()) as usize;
                        if let Some(&t) = file.get(p + 8 + nl) {
                            if p + 8 + nl < c.end {
                                return format!("PROP:payload:type{}", t);
                            }
                        }
                    }
                }
                return format!("{}:payload", name);
            }
        }
        "past-chunks".into()
    } else if format.is_xml() {
        // Coarse lexical state at `off`.
        let upto = &file[..off.min(file.len())];
        let last_lt = upto.iter().rposition(|&b| b == b'<');
        let last_gt = upto.iter().rposition(|&b| b == b'>');
        let in_cdata = {
            let s = String::from_utf8_lossy(upto);
            match (s.rfind("<![CDATA["), s.rfind("]]>")) {
                (Some(a), Some(b)) => a > b,
                (Some(_), None) => true,
                _ => false,
            }
        };
        if in_cdata {
            return "xml:cdata".into();
        }
        let in_tag = match (last_lt, last_gt) {
            (Some(a), Some(b)) => a > b,
            (Some(_), None) => true,
            _ => false,
        };
        if in_tag {
            let tag_start = last_lt.unwrap();
            let quotes = upto[tag_start..].iter().filter(|&&b| b == b'"').count();
            if quotes % 2 == 1 {
                return "xml:attribute-value".into();
            }
            if upto.get(tag_start + 1) == Some(&b'/') {
                return "xml:closing-tag".into();
            }
            return "xml:tag".into();
        }
        let last_amp = upto.iter().rposition(|&b| b == b'&');
        let last_semi = upto.iter().rposition(|&b| b == b';');
        if let Some(a) = last_amp {
            if last_semi.map(|s| s < a).unwrap_or(true) && off - a < 10 {
                return "xml:entity".into();
            }
        }
        "xml:text".into()
    } else {
        if off < 4 {
            "attr:count".into()
        } else {
            "attr:entries".into()
        }
    }
}

/// Offsets of 4-byte little-endian fields that look like lengths or counts,
/// grouped by the kind of structure they belong to, so that rare structures
/// (SSTR, META, header) are targeted as often as common ones.
fn length_fields(format: Format, file: &[u8]) -> Vec<(String, Vec<usize>)> {
    let mut groups: std::collections::BTreeMap<String, Vec<usize>> = std::collections::BTreeMap::new();
    if format.is_bin() {
        if file.len() >= 32 {
            groups.entry("header".into()).or_default().extend([16usize, 20]);
        }
        for c in walk_chunks(file) {
            let name = String::from_utf8_lossy(&c.name).trim_end_matches('\0').to_string();
            let name = if ["META", "SSTR", "INST", "PROP", "PRNT", "END"].contains(&name.as_str()) { name } else { "other".to_string() };
            groups.entry(format!("{}:chunk-header", name)).or_default().extend([c.start + 4, c.start + 8, c.start + 12]);
            if !c.compressed {
                let g = groups.entry(format!("{}:payload-head", name)).or_default();
                let mut k = 0;
                while k < 3 && c.payload + 4 * (k + 1) <= c.end {
                    g.push(c.payload + 4 * k);
                    k += 1;
                }
                if &c.name == b"PRNT" && c.payload + 5 <= c.end {
                    g.push(c.payload + 1);
                }
                // fields right after (type_id, name) in INST / PROP, and a scan
                // of the bytes that follow (per-value length prefixes, counts)
                if (&c.name == b"INST" || &c.name == b"PROP") && c.payload + 8 <= c.end {
                    let nl = u32::from_le_bytes(file[c.payload + 4..c.payload + 8].try_into().unwrap()) as usize;
                    let after = c.payload.saturating_add(8).saturating_add(nl);
                    if after + 5 <= c.end {
                        let g = groups.entry(format!("{}:after-name", name)).or_default();
                        g.push(after);
                        g.push(after + 1);
                        let g = groups.entry(format!("{}:value-scan", name)).or_default();
                        let mut o = after + 1;
                        while o + 4 <= c.end && o < after + 64 {
                            g.push(o);
                            o += 1;
                        }
                    }
                }
                // Plausible length prefixes of large values (>= 1 KiB, fitting in the
                // chunk): the places where "allocate first, read later" goes wrong.
                if (&c.name == b"PROP" || &c.name == b"SSTR") && c.end - c.payload >= 1028 {
                    let mut cands: Vec<(u32, usize)> = Vec::new();
                    let mut o = c.payload;
                    while o + 4 <= c.end {
                        let v = u32::from_le_bytes(file[o..o + 4].try_into().unwrap());
                        if v >= 1024 && o + 4 + v as usize <= c.end {
                            cands.push((v, o));
                            // a real prefix is followed by its value: skip it
                            o += 4 + v as usize;
                        } else {
                            o += 1;
                        }
                    }
                    cands.sort_by(|a, b| b.cmp(a));
                    let g = groups.entry("large-length-prefix".into()).or_default();
                    g.extend(cands.into_iter().take(4).map(|(_, o)| o));
                }
                if &c.name == b"SSTR" {
                    let g = groups.entry("SSTR:entries".into()).or_default();
                    let mut o = c.payload + 8;
                    while o + 20 <= c.end && g.len() < 8 {
                        g.push(o + 16);
                        let l = u32::from_le_bytes(file[o + 16..o + 20].try_into().unwrap()) as usize;
                        o = o.saturating_add(20).saturating_add(l);
                    }
                }
            }
        }
    } else if format == Format::Attr {
        let g = groups.entry("attr".into()).or_default();
        let mut k = 0;
        while k + 4 <= file.len() && k < 48 {
            g.push(k);
            k += 1;
        }
    }
    groups.into_iter().filter(|(_, v)| !v.is_empty()).collect()
}

const DICT: &[&[u8]] = &[
    b"</Item>", b"<Item class=\"Folder\" referent=\"RBX0\">", b"</roblox>", b"<Properties>",
    b"</Properties>", b"&#x0;", b"&#xD800;", b"]]>", b"<![CDATA[", b"\xff\xff\xff\xff",
    b"\0\0\0\0", b"\x7f\xff\xff\xff", b"<Ref name=\"x\">RBX0</Ref>", b"<SharedString name=\"x\">AAAA</SharedString>",
    b"<string name=\"Name\">", b"<token name=\"t\">99999999999999999999</token>", b"&amp;", b"\"", b"<", b">",
    b"INST", b"PROP", b"PRNT", b"END\0", b"SSTR", b"META", b"<roblox version=\"4\">", b"null",
    b"<UniqueId name=\"UniqueId\">00000000000000000000000000000001</UniqueId>",
    b"<float name=\"f\">NAN</float>", b"<int64 name=\"i\">-9223372036854775809</int64>",
    b"<BinaryString name=\"b\">!!!!</BinaryString>", b"<CoordinateFrame name=\"c\"><X>1</X></CoordinateFrame>",
];

const PROP_NAMES: &[&str] = &[
    "Name", "Tags", "AttributesSerialize", "UniqueId", "Font", "FontFace", "BrickColor", "Color3uint8", "Color",
    "size", "Size", "CFrame", "Parent", "Value", "Source", "MaterialColors", "PhysicalConfigData", "SecurityCapabilities",
    "HistoryId", "Archivable", "Anchored", "", "MeshId", "TextureID", "PrimaryPart", "Capabilities", "WorldPivotData",
];

const CLASS_NAMES: &[&str] = &[
    "Part", "Folder", "TextLabel", "Model", "ObjectValue", "Terrain", "MeshPart", "Script", "Workspace", "DataModel",
    "", "Instance", "StringValue", "UnionOperation", "Decal", "Sound", "VerifNoSuchClass",
];

const XML_OPS: &[&str] = &[
    "delete-element", "delete-closing-tag", "rename-element", "replace-text", "delete-attribute",
    "change-attribute", "duplicate-attribute", "duplicate-element", "swap-elements", "drop-last-token", "duplicate-first-token",
    "truncate-text", "duplicate-as-other-type", "insert-markup",
];

/// Markup that a conforming XML parser accepts (or must reject cleanly) in the
/// middle of a document: comments, processing instructions, CDATA, character
/// and entity references, a doctype, a byte-order mark, stray closing tags.
const XML_SNIPPETS: &[&str] = &[
    "<!--c-->", "<!-- -- -->", "<?pi x?>", "<![CDATA[]]>", "<![CDATA[1]]>", "<![CDATA[ ]]>", "&amp;", "&#x41;", "&#49;", "&lt;", "&#xD;", "&#x110000;",
    "<!DOCTYPE x>", "<!DOCTYPE x [<!ENTITY e \"1\">]>", "&e;", "\u{feff}", "<x/>", "<x>", "</x>", "]]>", "<![CDATA[", "<!--", "<?xml version=\"1.0\"?>", "\r\n", "\t",
    "<Properties/>", "<Properties></Properties>", "<Item/>", "<Item class=\"Folder\" referent=\"RBX0\"/>", "<External>null</External>", "<Meta name=\"a\">b</Meta>", "<SharedStrings/>",
    "<SharedString md5=\"AAAAAAAAAAAAAAAAAAAAAA==\">QQ==</SharedString>", "<null></null>", "<string name=\"Name\">x</string>",
];

const XML_NAMES: &[&str] = &[
    "Item", "Properties", "string", "int", "int64", "float", "double", "bool", "Vector3", "Vector2", "CoordinateFrame",
    "Ref", "SharedString", "BinaryString", "token", "X", "Y", "Z", "R00", "Color3", "Color3uint8", "UDim", "UDim2", "Content",
    "url", "null", "OptionalCoordinateFrame", "CFrame", "UniqueId", "SecurityCapabilities", "Font", "Family", "Weight",
    "Style", "CachedFaceId", "NumberSequence", "ColorSequence", "NumberRange", "PhysicalProperties", "CustomPhysics",
    "Faces", "Axes", "Meta", "External", "SharedStrings", "roblox", "Rect2D", "min", "max", "Ray", "origin", "direction",
    "ProtectedString", "Vector3int16", "Region3", "verifunknown",
];

const XML_TEXTS: &[&str] = &[
    "", "NAN", "INF", "-INF", "1e999", "-1", "99999999999999999999", "0x10", "true", "TRUE", "!!!!", "AAAA", "AA=A", " ",
    "null", "RBX0", "RBXFFFFFFFF", "1 2 3", "0 0 0 0 0 0", "1,2", "&#0;", "&bogus;", "-0", "4294967296", "1.5", "rbxasset://x",
    "00000000000000000000000000000000", "zzzzzzzzzzzzzzzzzzzzzzzzzzzzzzzz", "QUI", "QQ", "AAA", "AA", "QUJDRA", "QUJDREU", "AAAAAA==", "AAAAAAA=", "1e400", "nan", "+INF", "0x", "-", ".", "1.2.3", "+-1",
    "\u{661}\u{662}\u{663}", "1 ", " 1", "1\n", "QUJD QUJD", "QUJD\nQUJD", "=QUJD", "QUJ", "Q", "////", "1e-400", "-2147483649", "2147483648",
    "1.#INF", "-1.#INF", "1.#QNAN", "-1.#IND", "1.#SNAN", "1.#J", "#", "1e", "1E5", "0.", ".5", "1_000", "١", "-nan", "infinity", "-Infinity", "+1", "1.0e+38", "3.5e38", "1e-46",
    "18446744073709551616", "-9223372036854775809", "0.1e", "true false", "rbxasset://\u{0}", "ffffffffffffffffffffffffffffffff", "0000000000000000000000000000000g",
    "123456789012345678901234567890123456789012345678901234567890123456789012345678901234567890123456789012345678901234567890", "AAAAAAAAAAAAAAAAAAAAAAAAAAAAAAAAAAAAAAAAAAAAAAAAAAAAAAAAAAAAAAAAAAAAAAAAAAAAAAAA",
];

/// A dictionary token, whole or cut short at any byte, optionally followed by a
/// multi-byte character (so that fixed-width slicing of the text ends inside it).
fn xml_text_variant(arg: u32) -> Vec<u8> {
    let tok = XML_TEXTS[arg as usize % XML_TEXTS.len()].as_bytes();
    let v = (arg as usize / XML_TEXTS.len()) % 8;
    let cut_arg = arg as usize / (XML_TEXTS.len() * 8);
    let mut out = match v {
        0..=3 => tok.to_vec(),
        _ if tok.is_empty() => Vec::new(),
        _ => tok[..cut_arg % (tok.len() + 1)].to_vec(),
    };
    if v == 3 || v == 7 {
        out.extend_from_slice("\u{e9}".as_bytes());
    }
    if v == 6 {
        out.extend_from_slice(b" 1");
    }
    out
}

#[derive(Clone, Debug)]
struct XmlTag {
    start: usize,
    end: usize, // one past '>'
    closing: bool,
    self_closing: bool,
    name: String,
}

fn scan_xml_tags(file: &[u8]) -> Vec<XmlTag> {
    let mut out = Vec::new();
    let mut i = 0usize;
    while i < file.len() {
        if file[i] == b'<' {
            if file[i..].starts_with(b"<![CDATA[") {
                match file[i..].windows(3).position(|w| w == b"]]>") {
                    Some(p) => {
                        i += p + 3;
                        continue;
                    }
                    None => break,
                }
            }
            let end = match file[i..].iter().position(|&b| b == b'>') {
                Some(p) => i + p + 1,
                None => break,
            };
            let inner = &file[i + 1..end - 1];
            let closing = inner.first() == Some(&b'/');
            let self_closing = inner.last() == Some(&b'/');
            let name_bytes: Vec<u8> = inner
                .iter()
                .skip(if closing { 1 } else { 0 })
                .take_while(|b| b.is_ascii_alphanumeric() || **b == b'_' || **b == b':')
                .copied()
                .collect();
            if !inner.starts_with(b"?") && !inner.starts_with(b"!") {
                out.push(XmlTag { start: i, end, closing, self_closing, name: String::from_utf8_lossy(&name_bytes).to_string() });
            }
            i = end;
        } else {
            i += 1;
        }
    }
    out
}

/// Index of the tag that closes `tags[k]` (an opening tag), by depth counting.
fn matching_close(tags: &[XmlTag], k: usize) -> Option<usize> {
    let mut depth = 0i32;
    for (j, t) in tags.iter().enumerate().skip(k) {
        if t.self_closing {
            if j == k {
                return Some(k);
            }
            continue;
        }
        if t.closing {
            depth -= 1;
            if depth == 0 {
                return Some(j);
            }
        } else {
            depth += 1;
        }
    }
    None
}

fn apply_xml_edit(file: &mut Vec<u8>, op: u8, which: u32, arg: u32) -> bool {
    let tags = scan_xml_tags(file);
    let opens: Vec<usize> = (0..tags.len()).filter(|&i| !tags[i].closing).collect();
    if opens.is_empty() {
        return false;
    }
    let mut k = opens[which as usize % opens.len()];
    if (op % 14 == 12 || op % 14 == 5) && (arg >> 20) & 1 == 1 {
        // Duplicating under another type is aimed at the elements whose value is
        // resolved in a second pass (referents, shared strings) half of the time.
        let deferred: Vec<usize> = opens.iter().copied().filter(|&i| tags[i].name == "Ref" || tags[i].name == "SharedString").collect();
        if !deferred.is_empty() {
            k = deferred[which as usize % deferred.len()];
        }
    }
    if op % 14 == 3 {
        // Text replacement is aimed at leaf elements (the ones that carry a value).
        let leaves: Vec<usize> = opens
            .iter()
            .copied()
            .filter(|&i| !tags[i].self_closing && tags.get(i + 1).map_or(false, |n| n.closing && n.name == tags[i].name))
            .collect();
        if !leaves.is_empty() {
            k = leaves[which as usize % leaves.len()];
        }
    }
    let t = tags[k].clone();
    let close = matching_close(&tags, k);
    match op % 14 {
        0 => {
            // delete the whole element
            let end = close.map(|c| tags[c].end).unwrap_or(t.end);
            file.drain(t.start..end);
        }
        1 => match close {
            Some(c) if c != k => {
                file.drain(tags[c].start..tags[c].end);
            }
            _ => return false,
        },
        2 => {
            let new = XML_NAMES[arg as usize % XML_NAMES.len()];
            // closing tag first so that offsets of the opening tag stay valid
            if let Some(c) = close {
                if c != k {
                    let ct = &tags[c];
                    file.splice(ct.start + 2..ct.start + 2 + ct.name.len(), new.bytes());
                }
            }
            file.splice(t.start + 1..t.start + 1 + t.name.len(), new.bytes());
        }
        3 => {
            // replace the text that follows the opening tag
            let text_end = file[t.end..].iter().position(|&b| b == b'<').map(|p| t.end + p).unwrap_or(file.len());
            let new = xml_text_variant(arg);
            file.splice(t.end..text_end, new);
        }
        4 | 5 | 6 => {
            // attributes: name="value"
            let inner_start = t.start + 1 + t.name.len();
            let inner_end = t.end - 1;
            let seg = file[inner_start..inner_end].to_vec();
            let mut attrs: Vec<(usize, usize, usize)> = Vec::new(); // (attr start, value start, attr end) relative
            let mut i = 0;
            while i < seg.len() {
                if seg[i].is_ascii_alphabetic() {
                    let a = i;
                    while i < seg.len() && seg[i] != b'=' {
                        i += 1;
                    }
                    if i + 1 < seg.len() && seg[i + 1] == b'"' {
                        let vs = i + 2;
                        let mut j = vs;
                        while j < seg.len() && seg[j] != b'"' {
                            j += 1;
                        }
                        if j < seg.len() {
                            attrs.push((a, vs, j + 1));
                            i = j + 1;
                            continue;
                        }
                    }
                    break;
                }
                i += 1;
            }
            if attrs.is_empty() {
                return false;
            }
            let (a, vs, ae) = attrs[arg as usize % attrs.len()];
            match op % 14 {
                4 => {
                    file.drain(inner_start + a..inner_start + ae);
                }
                5 => {
                    let new = XML_TEXTS[(arg as usize / 7) % XML_TEXTS.len()];
                    file.splice(inner_start + vs..inner_start + ae - 1, new.bytes().filter(|b| *b != b'"'));
                }
                _ => {
                    let mut dup = vec![b' '];
                    dup.extend_from_slice(&seg[a..ae]);
                    file.splice(inner_start + ae..inner_start + ae, dup);
                }
            }
        }
        7 => {
            let end = close.map(|c| tags[c].end).unwrap_or(t.end);
            let copy = file[t.start..end].to_vec();
            file.splice(end..end, copy);
        }
        12 => {
            // A second element with the same attributes (same property name) but
            // another type tag and, half of the time, another text.
            let end = close.map(|c| tags[c].end).unwrap_or(t.end);
            let mut copy = file[t.start..end].to_vec();
            // For a referent or shared string the second element is given a type that
            // takes (almost) any text, so that the document still decodes.
            const TAKES_TEXT: &[&str] = &["string", "ProtectedString", "Content", "Ref", "SharedString", "BinaryString"];
            let new = if (arg >> 20) & 1 == 1 && (t.name == "Ref" || t.name == "SharedString") {
                TAKES_TEXT[(arg as usize >> 8) % TAKES_TEXT.len()]
            } else {
                XML_NAMES[arg as usize % XML_NAMES.len()]
            };
            if let Some(c) = close {
                if c != k {
                    let ct = &tags[c];
                    let rel = ct.start - t.start;
                    copy.splice(rel + 2..rel + 2 + ct.name.len(), new.bytes());
                }
            }
            copy.splice(1..1 + t.name.len(), new.bytes());
            if arg % 2 == 0 {
                // replace the text directly after the (renamed) opening tag
                if let Some(gt) = copy.iter().position(|&b| b == b'>') {
                    let text_end = copy[gt + 1..].iter().position(|&b| b == b'<').map(|p| gt + 1 + p).unwrap_or(copy.len());
                    let txt = XML_TEXTS[(arg as usize / 3) % XML_TEXTS.len()];
                    copy.splice(gt + 1..text_end, txt.bytes());
                }
            }
            file.splice(end..end, copy);
        }
        13 => {
            let snip = XML_SNIPPETS[arg as usize % XML_SNIPPETS.len()].as_bytes();
            let text_end = file[t.end..].iter().position(|&b| b == b'<').map(|p| t.end + p).unwrap_or(file.len());
            let at = match (arg as usize / XML_SNIPPETS.len()) % 5 {
                0 => t.end,
                1 => t.start,
                2 => close.map(|c| tags[c].start).unwrap_or(t.end),
                3 => close.map(|c| tags[c].end).unwrap_or(t.end),
                _ => t.end + (arg as usize / (XML_SNIPPETS.len() * 5)) % (text_end - t.end + 1),
            };
            file.splice(at..at, snip.iter().copied());
        }
        9 | 10 | 11 => {
            // surgery on the whitespace-separated text that follows the opening tag
            let text_end = file[t.end..].iter().position(|&b| b == b'<').map(|p| t.end + p).unwrap_or(file.len());
            let text = file[t.end..text_end].to_vec();
            if text.iter().all(|b| b.is_ascii_whitespace()) {
                return false;
            }
            let new: Vec<u8> = match op % 14 {
                9 => {
                    let trimmed_end = text.iter().rposition(|b| !b.is_ascii_whitespace()).map(|p| p + 1).unwrap_or(0);
                    let cut = text[..trimmed_end].iter().rposition(|b| b.is_ascii_whitespace()).unwrap_or(0);
                    text[..cut].to_vec()
                }
                10 => {
                    let start = text.iter().position(|b| !b.is_ascii_whitespace()).unwrap_or(0);
                    let end = text[start..].iter().position(|b| b.is_ascii_whitespace()).map(|p| start + p).unwrap_or(text.len());
                    let mut v = text[start..end].to_vec();
                    v.push(b' ');
                    v.extend_from_slice(&text);
                    v
                }
                _ => text[..(arg as usize % text.len())].to_vec(),
            };
            file.splice(t.end..text_end, new);
        }
        _ => {
            // swap with another element (non-overlapping)
            let k2 = opens[arg as usize % opens.len()];
            if k2 == k {
                return false;
            }
            let (a, b) = if tags[k].start < tags[k2].start { (k, k2) } else { (k2, k) };
            let a_end = matching_close(&tags, a).map(|c| tags[c].end).unwrap_or(tags[a].end);
            let b_end = matching_close(&tags, b).map(|c| tags[c].end).unwrap_or(tags[b].end);
            if a_end > tags[b].start {
                return false; // nested
            }
            let ea = file[tags[a].start..a_end].to_vec();
            let eb = file[tags[b].start..b_end].to_vec();
            file.splice(tags[b].start..b_end, ea);
            file.splice(tags[a].start..a_end, eb);
        }
    }
    true
}

const HOSTILE_U32: &[u32] = &[
    0, 1, 0x7fff_ffff, 0x8000_0000, 0xffff_ffff, 0x00ff_ffff, 0x0100_0000, 65536, 0xffff_fffe, 0x8000_0001, 0x7fff_fffe, 16, 255, 256,
    65535, 0x4000_0000, 0x1000_0000, 4, 8, 0xffff_0000,
];

// ---------------------------------------------------------------------------

pub struct IoSim {
    pub cat: Catalog,
}

impl IoSim {
    pub fn new() -> IoSim {
        IoSim { cat: spec::build_catalog() }
    }

    fn gen_format(&self, r: &mut Rng) -> Format {
        match r.weighted(&[20, 30, 12, 16, 8, 8, 4, 3]) {
            0 => Format::BinLz4,
            1 => Format::BinNone,
            2 => Format::BinZstd,
            3 => Format::Xml,
            4 => Format::XmlUnknown,
            5 => Format::Attr,
            6 => Format::XmlNoReflection,
            _ => Format::XmlStrict,
        }
    }

    pub fn gen_tree(&self, r: &mut Rng, small: bool) -> NodeSpec {
        let max_nodes = if small {
            r.range(1, 8) as usize
        } else {
            match r.below(10) {
                0..=3 => r.range(1, 4) as usize,
                4..=7 => r.range(2, 14) as usize,
                _ => r.range(10, 60) as usize,
            }
        };
        let shared_pool: Vec<Vec<u8>> = (0..r.below(3)).map(|_| spec::bytesv(r)).collect();
        let p = TreeParams {
            max_nodes,
            max_depth: r.range(1, 12) as usize,
            max_props: if small { r.range(0, 4) as usize } else { r.range(0, 7) as usize },
            palette: spec::gen_palette(r, &self.cat),
            known_prop_permille: *r.pick(&[0u64, 300, 700, 950]),
            allow_uid: true,
            shared_pool,
        };
        let mut tree = spec::gen_tree(r, &self.cat, &p);
        // Type sweep: one class whose instances carry a property of many
        // different value types, so that a fault in the class's INST chunk or a
        // cut anywhere puts a decoder of (nearly) every wire type in flight.
        if r.chance(1, 6) {
            let class = if r.chance(1, 2) { "VerifSweep".to_string() } else { "Part".to_string() };
            let n_inst = r.range(1, 3);
            let mut types: Vec<&str> = spec::ALL_TYPES.to_vec();
            r.shuffle(&mut types);
            types.truncate(r.range(8, 40) as usize);
            for i in 0..n_inst {
                let mut props = Vec::new();
                for ty in &types {
                    if i > 0 && r.chance(1, 4) {
                        continue;
                    }
                    let dummy = TreeParams { max_nodes: 1, max_depth: 1, max_props: 0, palette: vec![], known_prop_permille: 0, allow_uid: true, shared_pool: vec![] };
                    props.push((format!("Sweep{}", ty), spec::gen_valspec_of_type(r, ty, 4, &dummy)));
                }
                tree.children.push(NodeSpec { class: class.clone(), name: format!("sweep{}", i), props, children: vec![] });
            }
        }
        if tree.children.len() >= 2 && r.chance(1, 5) {
            tree.name = "multiroot".into();
        }
        // Occasionally many instances of one class (long interleaved arrays,
        // referent deltas, counts beyond one byte).
        if !small && r.chance(1, 25) {
            let n = if r.chance(1, 2) { *r.pick(&[254u64, 255, 256, 257, 258, 511, 512, 513]) } else { r.range(200, 1500) };
            let class = if r.chance(1, 2) { "Folder" } else { "VerifMany" };
            let with_prop = r.chance(1, 2);
            for i in 0..n {
                let props = if with_prop && i % 3 != 0 { vec![("Value".to_string(), ValSpec::I32(i as i32 * 7919))] } else { vec![] };
                tree.children.push(NodeSpec { class: class.to_string(), name: format!("m{}", i), props, children: vec![] });
            }
        }
        // Occasionally one large blob, so that files cross the 8 KiB buffer sizes
        // of BufReader / xml-rs and the block sizes of the compressors.
        if !small && r.chance(1, 16) {
            let len = r.range(20_000, 200_000) as usize;
            let bytes = if r.chance(1, 2) { r.bytes(len) } else { vec![b'a' + (r.below(26) as u8); len] };
            let v = match r.below(3) {
                0 => ValSpec::Shared(bytes),
                1 => ValSpec::Bytes(bytes),
                _ => ValSpec::Str(String::from_utf8_lossy(&bytes).chars().filter(|c| !c.is_control()).collect()),
            };
            tree.props.push(("VerifLargeBlob".to_string(), v));
        }
        // Make the rarer structures (SSTR chunk, sequences, Content arrays)
        // common enough to be in flight when a fault lands.
        if r.chance(1, 3) {
            let pool: Vec<Vec<u8>> = (0..r.range(1, 3)).map(|_| spec::bytesv(r)).collect();
            let mut rr = r.fork("extras");
            tree.for_each_mut(&mut |node| {
                if rr.chance(1, 2) {
                    let (name, v) = match rr.below(5) {
                        0 | 1 => ("VerifShared", ValSpec::Shared(rr.pick(&pool).clone())),
                        2 => ("VerifNumSeq", ValSpec::G { ty: "NumberSequence".into(), s: rr.next_u64() >> 20 }),
                        3 => ("VerifColSeq", ValSpec::G { ty: "ColorSequence".into(), s: rr.next_u64() >> 20 }),
                        _ => ("VerifContent", ValSpec::G { ty: "Content".into(), s: rr.next_u64() >> 20 }),
                    };
                    if !node.props.iter().any(|(k, _)| k == name) {
                        node.props.push((name.to_string(), v));
                    }
                }
            });
        }
        tree
    }

    fn gen_attr_workload(&self, r: &mut Rng) -> Vec<(String, ValSpec)> {
        let n = r.below(6);
        let mut out = Vec::new();
        for i in 0..n {
            let ty = *r.pick(spec::ATTR_TYPES);
            let name = if r.chance(1, 3) { spec::stringv(r) } else { format!("a{}", i) };
            out.push((name, ValSpec::G { ty: ty.to_string(), s: r.next_u64() >> 16 }));
        }
        out
    }

    fn gen_read_plan(&self, r: &mut Rng) -> ReadPlan {
        ReadPlan {
            mode: *r.pick(&[0u8, 1, 2, 2]),
            intr_permille: *r.pick(&[0u16, 0, 30, 200, 500]),
            seed: r.next_u64() >> 16,
        }
    }

    fn gen_write_plan(&self, r: &mut Rng) -> WritePlan {
        WritePlan {
            mode: *r.pick(&[0u8, 2, 2]),
            intr_permille: *r.pick(&[0u16, 30, 200, 500]),
            seed: r.next_u64() >> 16,
        }
    }

    fn gen_edit(&self, r: &mut Rng, format: Format) -> Edit {
        let pos = r.next_u64() as u32;
        let kinds: &[u32] = if format.is_bin() {
            &[14, 12, 8, 6, 6, 6, 22, 16, 6, 4, 0, 8, 6, 6, 10]
        } else if format.is_xml() {
            &[10, 10, 5, 8, 8, 22, 0, 0, 10, 5, 40, 0, 0, 0, 0]
        } else {
            &[20, 20, 10, 8, 8, 6, 22, 0, 0, 6, 0, 0, 0, 0, 0]
        };
        match r.weighted(kinds) {
            0 => Edit::Flip { pos, bit: r.below(8) as u8 },
            1 => Edit::Subst {
                pos,
                val: *r.pick(&[0u8, 1, 0x7f, 0x80, 0xff, b'<', b'>', b'&', b'"', b' ']),
            },
            2 => Edit::ZeroRange {
                pos,
                len: *r.pick(&[1u32, 2, 3, 4, 4, 8, 8, 12, 16, 24, 36]),
                fill: *r.pick(&[0u8, 0, 0xff, 0xff, 0x7f, 0x80, 0xfe, 0x01]),
            },
            3 => Edit::DupRange { pos, len: r.range(1, 64) as u32 },
            4 => Edit::DropRange { pos, len: r.range(1, 64) as u32 },
            5 => Edit::Insert { pos, bytes: r.pick(DICT).to_vec() },
            6 => Edit::LenEdit { which: r.next_u64() as u32, how: r.below(12) as u8 },
            7 => Edit::ChunkOp { op: r.below(4) as u8, i: r.below(16) as u32, j: r.below(16) as u32 },
            8 => Edit::Splice {
                other_seed: r.next_u64() >> 16,
                src: r.next_u64() as u32,
                len: r.range(1, 400) as u32,
                dst: pos,
                snap: r.chance(3, 4),
            },
            9 => Edit::RandomTail { keep: pos, len: r.range(0, 64) as u32, seed: r.next_u64() >> 16 },
            10 => Edit::Xml {
                op: r.weighted(&[4, 4, 4, 16, 4, 5, 4, 4, 4, 4, 4, 5, 5, 10]) as u8,
                which: r.next_u64() as u32,
                arg: r.next_u64() as u32,
            },
            11 => Edit::PropType { which: r.next_u64() as u32, ty: r.below(0x24) as u8 },
            12 => Edit::PropRename { which: r.next_u64() as u32, name: r.below(PROP_NAMES.len() as u64) as u8 },
            13 => Edit::InstRename { which: r.next_u64() as u32, class: r.below(CLASS_NAMES.len() as u64) as u8 },
            _ => Edit::InstCount { which: r.next_u64() as u32, how: *r.pick(&[0u8, 0, 0, 1, 2, 3, 4, 5]) },
        }
    }

    // -- file construction ---------------------------------------------------

    fn source_of(&self, w: &Workload) -> Option<Source> {
        match w {
            Workload::Dom { tree } => {
                let (dom, _refs) = spec::materialise(tree);
                let root = dom.root_ref();
                // A tree whose root is named "multiroot" is saved as a selection of
                // its children (several roots in one file) instead of one root.
                let kids: Vec<Ref> = dom.root().children().to_vec();
                if tree.name == "multiroot" && kids.len() >= 2 {
                    Some(Source::Dom(dom, kids))
                } else {
                    Some(Source::Dom(dom, vec![root]))
                }
            }
            Workload::Attr { attrs } => {
                let mut a = Attributes::new();
                for (k, v) in attrs {
                    a.insert(k.clone(), spec::value_of(v, &|_| Ref::none()));
                }
                Some(Source::Attrs(a))
            }
            Workload::DeepChain { depth } => {
                // Built iteratively, bottom-up, so the harness itself never recurses.
                let mut dom = WeakDom::new(rbx_dom_weak::InstanceBuilder::new("Folder"));
                let mut parent = dom.root_ref();
                for _ in 1..*depth {
                    parent = dom.insert(parent, rbx_dom_weak::InstanceBuilder::new("Folder"));
                }
                let root = dom.root_ref();
                Some(Source::Dom(dom, vec![root]))
            }
            _ => None,
        }
    }

    fn deep_xml_text(depth: u32) -> Vec<u8> {
        let mut s = String::with_capacity(depth as usize * 48 + 64);
        s.push_str("<roblox version=\"4\">");
        for i in 0..depth {
            s.push_str("<Item class=\"Folder\" referent=\"R");
            s.push_str(&i.to_string());
            s.push_str("\">");
        }
        for _ in 0..depth {
            s.push_str("</Item>");
        }
        s.push_str("</roblox>");
        s.into_bytes()
    }

    /// Fault-free file for the workload (None if the encoder rejects it).
    fn fault_free_file(&self, format: Format, w: &Workload, ctx: &mut RunCtx) -> Option<(Vec<u8>, Option<Source>)> {
        match w {
            Workload::Random { len, seed, valid_header } => {
                let mut r = Rng::new(*seed);
                let mut bytes = r.bytes(*len as usize);
                if *valid_header {
                    let head: &[u8] = if format.is_bin() {
                        b"<roblox!\x89\xff\x0d\x0a\x1a\x0a\x00\x00\x01\x00\x00\x00\x01\x00\x00\x00\x00\x00\x00\x00\x00\x00\x00\x00"
                    } else if format.is_xml() {
                        b"<roblox version=\"4\"><Item class=\"Folder\" referent=\"RBX0\"><Properties>"
                    } else {
                        b"\x02\x00\x00\x00"
                    };
                    let n = head.len().min(bytes.len());
                    bytes[..n].copy_from_slice(&head[..n]);
                }
                Some((bytes, None))
            }
            Workload::Literal { bytes } => Some((bytes.clone(), None)),
            Workload::DeepChain { depth } if format.is_xml() => Some((Self::deep_xml_text(*depth), None)),
            _ => {
                let src = self.source_of(w)?;
                let mut buf = Vec::new();
                let res = crate::panic::catch(|| encode_raw(format, &src, &mut buf));
                match res {
                    Ok(Ok(())) => Some((buf, Some(src))),
                    Ok(Err(_)) => {
                        ctx.count("encode_rejected_workload");
                        None
                    }
                    Err(p) => {
                        // Not a sink failure, so not C13's statement; counted only.
                        ctx.count("probe_encode_panicked_fault_free");
                        ctx.log.str(&p.key);
                        None
                    }
                }
            }
        }
    }

    fn snap(format: Format, file: &[u8], off: usize) -> usize {
        if file.is_empty() {
            return 0;
        }
        let off = off % file.len();
        if format.is_bin() {
            let chunks = walk_chunks(file);
            let mut best = 0usize;
            for c in &chunks {
                if c.start <= off {
                    best = c.start;
                }
            }
            best
        } else {
            match file[..=off].iter().rposition(|&b| b == b'<') {
                Some(p) => p,
                None => 0,
            }
        }
    }

    fn apply_edit(&self, format: Format, file: &mut Vec<u8>, e: &Edit, depth: u32, ctx: &mut RunCtx) {
        let len = file.len();
        if len == 0 {
            if let Edit::Insert { bytes, .. } = e {
                file.extend_from_slice(bytes);
            }
            return;
        }
        match e {
            Edit::Flip { pos, bit } => {
                let p = *pos as usize % len;
                file[p] ^= 1 << (bit % 8);
                ctx.count("fault_fired:flip");
            }
            Edit::Subst { pos, val } => {
                let p = *pos as usize % len;
                file[p] = *val;
                ctx.count("fault_fired:subst");
            }
            Edit::ZeroRange { pos, len: l, fill } => {
                let p = *pos as usize % len;
                let e = (p + *l as usize).min(len);
                for b in &mut file[p..e] {
                    *b = *fill;
                }
                ctx.count("fault_fired:zero-range");
            }
            Edit::DupRange { pos, len: l } => {
                let p = *pos as usize % len;
                let e = (p + *l as usize).min(len);
                let seg = file[p..e].to_vec();
                file.splice(e..e, seg);
                ctx.count("fault_fired:dup-range");
            }
            Edit::DropRange { pos, len: l } => {
                let p = *pos as usize % len;
                let e = (p + *l as usize).min(len);
                file.drain(p..e);
                ctx.count("fault_fired:drop-range");
            }
            Edit::Insert { pos, bytes } => {
                let p = *pos as usize % (len + 1);
                file.splice(p..p, bytes.iter().copied());
                ctx.count("fault_fired:insert");
            }
            Edit::LenEdit { which, how } => {
                let groups = length_fields(format, file);
                if groups.is_empty() {
                    return;
                }
                // One time in three a file that has large values gets the edit there.
                let large = groups.iter().position(|(n, _)| n == "large-length-prefix");
                let gi = match large {
                    Some(i) if (*which as usize / 31) % 3 == 0 => i,
                    _ => *which as usize % groups.len(),
                };
                let (gname, fields) = &groups[gi];
                let off = fields[(*which as usize / 7919) % fields.len()];
                ctx.count(&format!("len-edit-target:{}", gname));
                if off + 4 > file.len() {
                    return;
                }
                let old = u32::from_le_bytes(file[off..off + 4].try_into().unwrap());
                let remaining = (file.len() - off - 4) as u32;
                let new = match how % 12 {
                    0 => 0,
                    1 => old.wrapping_add(1),
                    2 => old.wrapping_sub(1),
                    3 => old.wrapping_mul(2),
                    // exactly what is left in the file, and one more / one less
                    4 => remaining,
                    5 => remaining.wrapping_add(1),
                    6 => remaining.wrapping_sub(1),
                    h => HOSTILE_U32[(h as usize + (*which as usize / 13)) % HOSTILE_U32.len()],
                };
                file[off..off + 4].copy_from_slice(&new.to_le_bytes());
                ctx.count("fault_fired:len-edit");
            }
            Edit::ChunkOp { op, i, j } => {
                if !format.is_bin() {
                    return;
                }
                let chunks = walk_chunks(file);
                if chunks.is_empty() {
                    return;
                }
                let i = *i as usize % chunks.len();
                let j = *j as usize % chunks.len();
                let head = file[..32.min(file.len())].to_vec();
                let mut list: Vec<Vec<u8>> = chunks.iter().map(|c| file[c.start..c.end].to_vec()).collect();
                let tail = file[chunks.last().unwrap().end..].to_vec();
                match op % 4 {
                    0 => {
                        let c = list[i].clone();
                        list.insert(j, c);
                    }
                    1 => {
                        list.remove(i);
                    }
                    2 => list.swap(i, j),
                    _ => {
                        let c = list.remove(i);
                        list.insert(0, c);
                    }
                }
                let mut out = head;
                for c in list {
                    out.extend_from_slice(&c);
                }
                out.extend_from_slice(&tail);
                *file = out;
                ctx.count("fault_fired:chunk-op");
            }
            Edit::Splice { other_seed, src, len: l, dst, snap } => {
                if depth > 0 {
                    return;
                }
                let mut r = Rng::new(*other_seed);
                let other_w = if format == Format::Attr {
                    Workload::Attr { attrs: self.gen_attr_workload(&mut r) }
                } else {
                    Workload::Dom { tree: self.gen_tree(&mut r, true) }
                };
                let mut scratch = RunCtx::new(&ctx.property, ctx.thorough);
                if let Some((other, _)) = self.fault_free_file(format, &other_w, &mut scratch) {
                    if other.is_empty() {
                        return;
                    }
                    let (s, d) = if *snap {
                        (Self::snap(format, &other, *src as usize), Self::snap(format, file, *dst as usize))
                    } else {
                        (*src as usize % other.len(), *dst as usize % len)
                    };
                    let e = (s + *l as usize).min(other.len());
                    let seg = other[s..e].to_vec();
                    let de = (d + seg.len()).min(file.len());
                    file.splice(d..de, seg);
                    ctx.count("fault_fired:splice");
                }
            }
            Edit::Xml { op, which, arg } => {
                if format.is_xml() && apply_xml_edit(file, *op, *which, *arg) {
                    ctx.count(&format!("fault_fired:xml-edit-{}", XML_OPS[*op as usize % XML_OPS.len()]));
                }
            }
            Edit::PropType { which, ty } => {
                if !format.is_bin() {
                    return;
                }
                let props: Vec<ChunkSpan> = walk_chunks(file).into_iter().filter(|c| &c.name == b"PROP" && !c.compressed).collect();
                if props.is_empty() {
                    return;
                }
                let c = &props[*which as usize % props.len()];
                if c.payload + 8 <= c.end {
                    let nl = u32::from_le_bytes(file[c.payload + 4..c.payload + 8].try_into().unwrap()) as usize;
                    let at = c.payload + 8 + nl;
                    if at < c.end {
                        file[at] = *ty;
                        ctx.count("fault_fired:prop-wire-type");
                    }
                }
            }
            Edit::InstCount { which, how } => {
                if !format.is_bin() {
                    return;
                }
                let list: Vec<ChunkSpan> = walk_chunks(file).into_iter().filter(|c| &c.name == b"INST" && !c.compressed).collect();
                if list.is_empty() {
                    return;
                }
                let c = &list[*which as usize % list.len()];
                if c.payload + 8 > c.end {
                    return;
                }
                let nl = u32::from_le_bytes(file[c.payload + 4..c.payload + 8].try_into().unwrap()) as usize;
                let at = c.payload + 8 + nl + 1; // after the name and the object-format byte
                if at + 4 > c.end {
                    return;
                }
                let n = u32::from_le_bytes(file[at..at + 4].try_into().unwrap());
                let new = match how % 6 {
                    0 => 0,
                    1 => 1,
                    2 => n.wrapping_sub(1),
                    3 => n.wrapping_add(1),
                    4 => n.wrapping_mul(2),
                    _ => 0x00ff_ffff,
                };
                file[at..at + 4].copy_from_slice(&new.to_le_bytes());
                ctx.count("fault_fired:inst-count");
            }
            Edit::PropRename { which, name } | Edit::InstRename { which, class: name } => {
                if !format.is_bin() {
                    return;
                }
                let want: &[u8; 4] = if matches!(e, Edit::PropRename { .. }) { b"PROP" } else { b"INST" };
                let list: Vec<ChunkSpan> = walk_chunks(file).into_iter().filter(|c| &c.name == want && !c.compressed).collect();
                if list.is_empty() {
                    return;
                }
                let c = &list[*which as usize % list.len()];
                if c.payload + 8 > c.end {
                    return;
                }
                let nl = u32::from_le_bytes(file[c.payload + 4..c.payload + 8].try_into().unwrap()) as usize;
                if c.payload + 8 + nl > c.end {
                    return;
                }
                let new_name: &str = if want == b"PROP" { PROP_NAMES[*name as usize % PROP_NAMES.len()] } else { CLASS_NAMES[*name as usize % CLASS_NAMES.len()] };
                let mut payload = Vec::new();
                payload.extend_from_slice(&file[c.payload..c.payload + 4]);
                payload.extend_from_slice(&(new_name.len() as u32).to_le_bytes());
                payload.extend_from_slice(new_name.as_bytes());
                payload.extend_from_slice(&file[c.payload + 8 + nl..c.end]);
                let mut chunk = Vec::new();
                chunk.extend_from_slice(&file[c.start..c.start + 4]);
                chunk.extend_from_slice(&0u32.to_le_bytes());
                chunk.extend_from_slice(&(payload.len() as u32).to_le_bytes());
                chunk.extend_from_slice(&0u32.to_le_bytes());
                chunk.extend_from_slice(&payload);
                file.splice(c.start..c.end, chunk);
                ctx.count(if want == b"PROP" { "fault_fired:prop-rename" } else { "fault_fired:inst-rename" });
            }
            Edit::RandomTail { keep, len: l, seed } => {
                let k = *keep as usize % (len + 1);
                file.truncate(k);
                let mut r = Rng::new(*seed);
                file.extend_from_slice(&r.bytes(*l as usize));
                ctx.count("fault_fired:random-tail");
            }
        }
    }

    // -- checked SUT calls ------------------------------------------------------

    /// One decode under a delivery plan, with the O1/O2 oracles applied.
    #[allow(clippy::too_many_arguments)]
    fn decode_checked(
        &self,
        format: Format,
        file: &[u8],
        plan: Option<&ReadPlan>,
        eof_at: Option<usize>,
        err_at: Option<(usize, io::ErrorKind)>,
        what: &str,
        ctx: &mut RunCtx,
    ) -> (Out, Fired) {
        ctx.evals += 1;
        crate::engine::tick();
        // Same clock / RNG / Ref / hash-key environment for every decode of a run.
        crate::env::rewind();
        let base = crate::env::alloc_window_begin();
        let mut fired = Fired::default();
        let res = match plan {
            None if eof_at.is_none() && err_at.is_none() => {
                crate::panic::catch(|| decode_raw(format, file).map(|d| d.digest()))
            }
            _ => {
                let default_plan = ReadPlan { mode: 0, intr_permille: 0, seed: 0 };
                let plan = plan.unwrap_or(&default_plan);
                let mut rd = SimReader::new(file, plan);
                if let Some(k) = eof_at {
                    rd = rd.eof_at(k);
                }
                if let Some((k, kind)) = err_at {
                    rd = rd.err_at(k, kind);
                }
                let r = crate::panic::catch(|| decode_raw(format, &mut rd).map(|d| d.digest()));
                fired = rd.fired.clone();
                r
            }
        };
        let (peak, maxreq) = crate::env::alloc_window_end(base);
        if fired.short > 0 {
            ctx.add(if plan.map(|p| p.mode) == Some(1) { "fault_fired:R-one" } else { "fault_fired:R-short" }, fired.short as u64);
        }
        if fired.intr > 0 {
            ctx.add("fault_fired:R-intr", fired.intr as u64);
        }
        if fired.first_intr {
            ctx.count("probe:first_read_call_interrupted");
        }
        if fired.eof {
            ctx.count("fault_fired:R-eof");
        }
        if fired.err {
            ctx.count("fault_fired:R-err");
        }
        let out = match res {
            Ok(Ok(d)) => Out::Ok(d),
            Ok(Err(e)) => Out::Err(e),
            Err(p) => {
                ctx.violate(p.key.clone(), format!("{} [{}] panicked at {}: {}", what, format.tag(), p.location, p.message));
                Out::Panic(p.key)
            }
        };
        if fired.step_cap {
            ctx.violate(
                format!("hang|{}|reader-step-cap", format.tag()),
                format!("{}: decoder kept calling read() without progress ({} calls on {} bytes)", what, fired.calls, file.len()),
            );
        }
        // "Unrelated to the input size": an absolute floor plus a generous
        // multiple of the input (LZ4 may legitimately expand 255x).
        if maxreq > ALLOC_REQ_CEILING + 256 * file.len() || peak > ALLOC_PEAK_CEILING + 512 * file.len() {
            ctx.violate(
                format!("alloc|{}|memory-unrelated-to-input", format.tag()),
                format!(
                    "{}: input of {} bytes caused a single request of {} bytes (peak {} bytes)",
                    what,
                    file.len(),
                    maxreq,
                    peak
                ),
            );
        }
        ctx.log.str(out.class());
        if let Out::Ok(d) = &out {
            ctx.log.u64(*d);
        }
        (out, fired)
    }

    fn note_distinct(&self, format: Format, scenario: &str, faults: &str, loc: &str, out: &Out, consumed: usize, ctx: &mut RunCtx) {
        if consumed > 32 {
            let mut d = Digest::new();
            d.str(format.tag());
            d.str(scenario);
            d.str(faults);
            d.str(loc);
            d.str(out.class());
            ctx.distinct.insert(d.finish());
        }
        ctx.count(&format!("loc:{}", loc));
    }

    fn exec_inner(&self, t: &IoTrace, ctx: &mut RunCtx) {
        let format = t.format;
        ctx.log.str(format.tag());
        let (file, src) = match self.fault_free_file(format, &t.workload, ctx) {
            Some(x) => x,
            None => return,
        };
        ctx.log.bytes(&file);
        ctx.count(&format!("format:{}", format.tag()));
        let generated_valid = src.is_some();
        // Read-side scenarios sometimes use the file as another conformant writer
        // (Roblox itself) would have produced it: with the metadata structures
        // that rbx-dom's own writers never emit (META chunk; <Meta> / <External>
        // elements). Write-side scenarios keep comparing with the encoder's bytes.
        let read_side = matches!(t.scenario, Scenario::Prefixes { .. } | Scenario::Delivery { .. } | Scenario::ReadErr { .. } | Scenario::Damage { .. });
        let file = if read_side && generated_valid && wants_foreign_metadata(&t.workload) {
            match with_foreign_metadata(format, &file) {
                Some(f) => {
                    ctx.count("files_with_foreign_metadata_structures");
                    f
                }
                None => file,
            }
        } else {
            file
        };

        match &t.scenario {
            Scenario::Prefixes { only, stride } => {
                if !generated_valid || format == Format::Attr {
                    return;
                }
                // The fault-free file itself must load, otherwise "valid file" does not apply.
                let (full, _) = self.decode_checked(format, &file, None, None, None, "fault-free decode", ctx);
                if !matches!(full, Out::Ok(_)) {
                    ctx.count("prefix_skipped_file_not_loadable");
                    return;
                }
                let ks: Vec<usize> = match only {
                    Some(k) => vec![*k as usize],
                    None => {
                        // Exhaustive for small files; for larger ones a stride that
                        // keeps one run within a few thousand decodes (plus every
                        // structure boundary +-4).
                        let budget = if ctx.thorough { 24_000 } else { 4_000 };
                        let stride = ((*stride).max(1) as usize).max(file.len() / budget + 1);
                        let mut ks: Vec<usize> = (0..file.len()).step_by(stride).collect();
                        if stride > 1 {
                            // all structure boundaries +-4
                            let mut marks = vec![0usize, 8, 14, 16, 20, 24, 32];
                            if format.is_bin() {
                                for c in walk_chunks(&file) {
                                    marks.push(c.start);
                                    marks.push(c.payload);
                                    marks.push(c.end);
                                }
                            } else {
                                for (i, b) in file.iter().enumerate() {
                                    if *b == b'<' || *b == b'>' {
                                        marks.push(i);
                                    }
                                }
                            }
                            for m in marks {
                                for d in 0..9usize {
                                    let k = (m + d).saturating_sub(4);
                                    if k < file.len() {
                                        ks.push(k);
                                    }
                                }
                            }
                            ks.sort();
                            ks.dedup();
                        } else {
                            ctx.count("prefix_files_enumerated_exhaustively");
                        }
                        ks
                    }
                };
                let need = required_len(format, &file);
                for k in ks {
                    if k >= need {
                        continue;
                    }
                    let (out, _) = self.decode_checked(format, &file[..k], None, None, None, "decode of strict prefix", ctx);
                    ctx.count("fault_fired:truncate");
                    let loc = location_class(format, &file, k);
                    self.note_distinct(format, "prefix", "truncate", &loc, &out, k, ctx);
                    if let Out::Ok(_) = out {
                        ctx.violate(
                            format!("prefix-accepted|{}", format.tag()),
                            format!("strict prefix of length {} of a valid {}-byte file decoded Ok (cut in {})", k, file.len(), loc),
                        );
                    }
                    if !ctx.violations.is_empty() && only.is_none() {
                        // Remember the failing offset for narrowing.
                        ctx.counters.insert("narrow_k".into(), k as u64);
                        return;
                    }
                }
            }
            Scenario::Delivery { plan } => {
                let (a, _) = self.decode_checked(format, &file, None, None, None, "slice decode", ctx);
                let (b, fired) = self.decode_checked(format, &file, Some(plan), None, None, "decode under benign delivery", ctx);
                let faults = format!("short{}intr{}", (fired.short > 0) as u8, (fired.intr > 0) as u8);
                self.note_distinct(format, "delivery", &faults, &format!("mode{}", plan.mode), &b, file.len(), ctx);
                if !a.same_class_and_value(&b) && !matches!(b, Out::Panic(_)) && !matches!(a, Out::Panic(_)) {
                    ctx.violate(
                        format!("delivery-dependent-result|{}", format.tag()),
                        format!("slice decode gave {:?}, delivery {:?} gave {:?}", a, plan, b),
                    );
                }
            }
            Scenario::ReadErr { at, kind, plan } => {
                if file.is_empty() {
                    return;
                }
                let k = *at as usize % file.len();
                let (a, _) = self.decode_checked(format, &file, None, None, None, "slice decode", ctx);
                let (b, fired) = self.decode_checked(format, &file, Some(plan), None, Some((k, err_kind(*kind))), "decode with hard read error", ctx);
                let loc = location_class(format, &file, k);
                if k + 1 == file.len() {
                    ctx.count("probe:error_on_last_byte");
                }
                self.note_distinct(format, "read-err", &format!("err{}", fired.err as u8), &loc, &b, k, ctx);
                match (&a, &b) {
                    (_, Out::Err(_)) | (_, Out::Panic(_)) | (Out::Panic(_), _) => {}
                    (Out::Ok(x), Out::Ok(y)) if x == y => {
                        if fired.err {
                            // The decoder saw the error and still produced the
                            // fault-free DOM: it did not need the rest. Not a
                            // violation of anything C13 states; counted.
                            ctx.count("probe:read_error_seen_but_result_identical(not asserted)");
                        }
                    }
                    _ => {
                        ctx.violate(
                            format!("read-error-wrong-result|{}", format.tag()),
                            format!("reader failed at byte {} of {} ({}): slice decode {:?}, faulted decode {:?}", k, file.len(), loc, a, b),
                        );
                    }
                }
            }
            Scenario::WriteBenign { plan } => {
                let src = match &src {
                    Some(s) => s,
                    None => return,
                };
                ctx.evals += 1;
                let mut w = SimWriter::new(plan);
                let res = crate::panic::catch(|| encode_raw(format, src, &mut w));
                if w.fired.short > 0 {
                    ctx.add("fault_fired:W-short", w.fired.short as u64);
                }
                if w.fired.intr > 0 {
                    ctx.add("fault_fired:W-intr", w.fired.intr as u64);
                }
                let out_class = match &res {
                    Ok(Ok(())) => "ok",
                    Ok(Err(_)) => "err",
                    Err(_) => "panic",
                };
                ctx.log.str(out_class);
                let mut d = Digest::new();
                d.str(format.tag());
                d.str("write-benign");
                d.u64((w.fired.short > 0) as u64 * 2 + (w.fired.intr > 0) as u64);
                d.str(out_class);
                if w.disk.len() > 32 && (w.fired.short > 0 || w.fired.intr > 0) {
                    ctx.distinct.insert(d.finish());
                }
                match res {
                    Ok(Ok(())) => {
                        // Control before blaming the write faults: with the environment
                        // rewound to the same point, does a fault-free save differ from a
                        // save under the same plan? If the two agree, the difference seen
                        // above comes from the serializer not being a function of its
                        // input (C07's business), not from short or interrupted writes.
                        let blame_faults = w.disk != file && {
                            crate::env::rewind();
                            let mut clean: Vec<u8> = Vec::new();
                            let a = crate::panic::catch(|| encode_raw(format, src, &mut clean));
                            crate::env::rewind();
                            let mut w2 = SimWriter::new(plan);
                            let b = crate::panic::catch(|| encode_raw(format, src, &mut w2));
                            let mut same = matches!((&a, &b), (Ok(Ok(())), Ok(Ok(())))) && clean == w2.disk;
                            if !same {
                                crate::env::rewind();
                                let mut clean2: Vec<u8> = Vec::new();
                                let c = crate::panic::catch(|| encode_raw(format, src, &mut clean2));
                                if matches!(c, Ok(Ok(()))) && (clean2 != clean || clean2 != file) {
                                    // no reference output exists: fault-free saves differ
                                    same = true;
                                }
                            }
                            if same {
                                ctx.count("probe:fault-free saves of one input differ (not asserted by C13)");
                            }
                            !same
                        };
                        if blame_faults {
                            ctx.violate(
                                format!("benign-write-faults-change-output|{}", format.tag()),
                                format!("with short/interrupted writes the sink holds {} bytes, fault-free output is {} bytes", w.disk.len(), file.len()),
                            );
                        }
                    }
                    Ok(Err(e)) => ctx.violate(
                        format!("benign-write-faults-fail|{}", format.tag()),
                        format!("short/interrupted writes made the serializer fail: {}", e),
                    ),
                    Err(p) => ctx.violate(p.key.clone(), format!("serializer [{}] panicked under short/interrupted writes at {}: {}", format.tag(), p.location, p.message)),
                }
            }
            Scenario::WriteErr { only, kind, zero, stride, plan } => {
                let src = match &src {
                    Some(s) => s,
                    None => return,
                };
                let ks: Vec<usize> = match only {
                    Some(k) => vec![*k as usize],
                    None => {
                        let budget = if ctx.thorough { 12_000 } else { 3_000 };
                        let stride = ((*stride).max(1) as usize).max(file.len() / budget + 1);
                        if stride <= 1 {
                            ctx.count("write_err_files_enumerated_exhaustively");
                        }
                        (0..file.len()).step_by(stride).collect()
                    }
                };
                for k in ks {
                    if k >= file.len() {
                        continue;
                    }
                    ctx.evals += 1;
                    crate::engine::tick();
                    let mut w = SimWriter::new(plan);
                    w = if *zero { w.zero_at(k) } else { w.err_at(k, err_kind(*kind)) };
                    let res = crate::panic::catch(|| encode_raw(format, src, &mut w));
                    let fired = w.fired.err || w.fired.zero;
                    if w.fired.err {
                        ctx.count("fault_fired:W-err");
                    }
                    if w.fired.zero {
                        ctx.count("fault_fired:W-zero");
                    }
                    let out_class = match &res {
                        Ok(Ok(())) => "ok",
                        Ok(Err(_)) => "err",
                        Err(_) => "panic",
                    };
                    ctx.log.str(out_class);
                    if k > 32 && fired {
                        let mut d = Digest::new();
                        d.str(format.tag());
                        d.str(if *zero { "write-zero" } else { "write-err" });
                        d.str(&location_class(format, &file, k));
                        d.str(out_class);
                        ctx.distinct.insert(d.finish());
                    }
                    match res {
                        Ok(Ok(())) => {
                            if fired {
                                ctx.violate(
                                    format!("write-failure-reported-as-success|{}", format.tag()),
                                    format!("sink failed at byte {} of {} ({}) but the serializer returned Ok", k, file.len(), if *zero { "Ok(0)" } else { "error" }),
                                );
                            } else if w.disk.len() < file.len() && {
                                // Control before calling it a truncation: with the environment
                                // rewound, a fault-free save and a save into the same sink are
                                // compared with each other. If the sink holds the whole of
                                // that fault-free output, nothing was lost; the length simply
                                // is not a function of the input (C07's business, not C13's).
                                crate::env::rewind();
                                let mut clean: Vec<u8> = Vec::new();
                                let a = crate::panic::catch(|| encode_raw(format, src, &mut clean));
                                crate::env::rewind();
                                let mut w2 = SimWriter::new(plan);
                                w2 = if *zero { w2.zero_at(k) } else { w2.err_at(k, err_kind(*kind)) };
                                let b = crate::panic::catch(|| encode_raw(format, src, &mut w2));
                                let mut complete = matches!((&a, &b), (Ok(Ok(())), Ok(Ok(())))) && clean == w2.disk;
                                if !complete {
                                    // A nondeterminism the rewind does not reach (std's
                                    // RandomState): two fault-free saves differ from each
                                    // other, so there is no reference output to compare with.
                                    crate::env::rewind();
                                    let mut clean2: Vec<u8> = Vec::new();
                                    let c = crate::panic::catch(|| encode_raw(format, src, &mut clean2));
                                    if matches!(c, Ok(Ok(()))) && (clean2 != clean || clean2 != file) {
                                        complete = true;
                                    }
                                }
                                if complete {
                                    ctx.count("probe:fault-free saves of one input differ (not asserted by C13)");
                                }
                                !complete
                            } {
                                // The sink could only take k bytes (a short write up to the
                                // fault), the serializer never came back for the rest and
                                // still reported success: the output is silently truncated.
                                ctx.count("fault_fired:W-short-before-fault");
                                ctx.violate(
                                    format!("write-failure-reported-as-success|{}", format.tag()),
                                    format!("sink accepted only {} of {} bytes (it fails at byte {}), the serializer did not write the rest and returned Ok", w.disk.len(), file.len(), k),
                                );
                            }
                        }
                        Ok(Err(_)) => {}
                        Err(p) => ctx.violate(p.key.clone(), format!("serializer [{}] panicked when the sink failed at byte {}: {} ({})", format.tag(), k, p.message, p.location)),
                    }
                    if !ctx.violations.is_empty() && only.is_none() {
                        ctx.counters.insert("narrow_k".into(), k as u64);
                        return;
                    }
                }
            }
            Scenario::Crash { at, sector } => {
                let src = match &src {
                    Some(s) => s,
                    None => return,
                };
                if file.is_empty() || format == Format::Attr {
                    return;
                }
                let (full, _) = self.decode_checked(format, &file, None, None, None, "fault-free decode", ctx);
                if !matches!(full, Out::Ok(_)) {
                    return;
                }
                let k = *at as usize % file.len();
                ctx.evals += 1;
                let plan = WritePlan { mode: 0, intr_permille: 0, seed: 0 };
                let mut w = SimWriter::new(&plan).err_at(k, io::ErrorKind::Other);
                let res = crate::panic::catch(|| encode_raw(format, src, &mut w));
                if let Err(p) = &res {
                    ctx.violate(p.key.clone(), format!("serializer [{}] panicked when the sink failed at byte {}: {}", format.tag(), k, p.message));
                    return;
                }
                let sector = (*sector).max(1) as usize;
                let durable = (w.disk.len() / sector) * sector;
                let disk = &w.disk[..durable.min(w.disk.len())];
                ctx.count("fault_fired:crash");
                if disk.len() >= required_len(format, &file) {
                    return;
                }
                let (out, _) = self.decode_checked(format, disk, None, None, None, "load after interrupted save", ctx);
                let loc = location_class(format, &file, disk.len());
                self.note_distinct(format, "crash", &format!("sector{}", sector), &loc, &out, disk.len(), ctx);
                if let Out::Ok(_) = out {
                    ctx.violate(
                        format!("interrupted-save-loads|{}", format.tag()),
                        format!("save interrupted at byte {} left {} durable bytes (sector {}) of a {}-byte file; loading them returned Ok", k, disk.len(), sector, file.len()),
                    );
                }
            }
            Scenario::Damage { edits, plan } => {
                let mut damaged = file.clone();
                for e in edits {
                    self.apply_edit(format, &mut damaged, e, 0, ctx);
                    if damaged.len() > (4 << 20) {
                        damaged.truncate(4 << 20);
                    }
                }
                if matches!(t.workload, Workload::Random { .. }) {
                    ctx.count("fault_fired:random-file");
                }
                ctx.log.bytes(&damaged);
                let (a, _) = self.decode_checked(format, &damaged, None, None, None, "decode of damaged bytes", ctx);
                let (b, fired) = self.decode_checked(format, &damaged, Some(plan), None, None, "decode of damaged bytes under benign delivery", ctx);
                let first_diff = file.iter().zip(damaged.iter()).position(|(x, y)| x != y).unwrap_or(file.len().min(damaged.len()));
                let loc = location_class(format, &file, first_diff);
                let kinds: Vec<String> = edits.iter().map(|e| format!("{:?}", e).split(' ').next().unwrap_or("").to_string()).collect();
                self.note_distinct(format, "damage", &kinds.join("+"), &loc, &a, first_diff.max(33), ctx);
                let _ = fired;
                if !a.same_class_and_value(&b) && !matches!(a, Out::Panic(_)) && !matches!(b, Out::Panic(_)) {
                    ctx.violate(
                        format!("delivery-dependent-result|{}", format.tag()),
                        format!("damaged file: slice decode gave {:?}, delivery {:?} gave {:?}", a, plan, b),
                    );
                }
            }
            Scenario::BufWriterProbe { at } => {
                let src = match &src {
                    Some(s) => s,
                    None => return,
                };
                if file.is_empty() {
                    return;
                }
                let k = *at as usize % file.len();
                let plan = WritePlan { mode: 0, intr_permille: 0, seed: 0 };
                let mut w = SimWriter::new(&plan).err_at(k, io::ErrorKind::Other);
                let res = crate::panic::catch(|| {
                    let bw = io::BufWriter::with_capacity(1 << 20, &mut w);
                    encode_raw(format, src, bw)
                });
                ctx.evals += 1;
                if let Ok(Ok(())) = res {
                    if w.disk.len() < file.len() {
                        ctx.count("probe:bufwriter_drop_hid_failed_flush(not asserted)");
                    }
                }
            }
        }
    }
}

impl Engine for IoSim {
    fn name(&self) -> &'static str {
        "iosim"
    }

    fn scripted(&self, _property: &str, thorough: bool) -> u64 {
        let _ = thorough;
        116
    }

    fn generate(&self, run_seed: u64, index: u64, _property: &str, thorough: bool) -> Value {
        let benign = ReadPlan { mode: 2, intr_permille: 100, seed: 1 };
        // Scripted scenarios first: the deep-chain bucket and header-level allocation probes.
        let scripted: Option<IoTrace> = match index {
            0 => Some(IoTrace {
                format: Format::Xml,
                workload: Workload::DeepChain { depth: 20_000 },
                scenario: Scenario::Delivery { plan: benign.clone() },
            }),
            1 => Some(IoTrace {
                format: Format::BinLz4,
                workload: Workload::DeepChain { depth: 50_000 },
                scenario: Scenario::Delivery { plan: benign.clone() },
            }),
            2 => Some(IoTrace {
                format: Format::BinNone,
                workload: Workload::Dom { tree: NodeSpec { class: "Folder".into(), name: "a".into(), props: vec![], children: vec![] } },
                scenario: Scenario::Damage { edits: vec![Edit::LenEdit { which: 7919 * 1 + 4, how: 8 }], plan: benign.clone() },
            }),
            3 => Some(IoTrace {
                format: Format::BinNone,
                workload: Workload::Dom { tree: NodeSpec { class: "Folder".into(), name: "a".into(), props: vec![], children: vec![] } },
                scenario: Scenario::Damage { edits: vec![Edit::LenEdit { which: 7919 * 1 + 2, how: 8 }], plan: benign.clone() },
            }),
            4 => Some(IoTrace {
                format: Format::Xml,
                workload: Workload::DeepChain { depth: 1_500 },
                scenario: Scenario::Delivery { plan: benign.clone() },
            }),
            5 => Some(IoTrace {
                format: Format::BinZstd,
                workload: Workload::DeepChain { depth: 3_000 },
                scenario: Scenario::Prefixes { only: None, stride: 97 },
            }),
            6 if thorough => Some(IoTrace {
                format: Format::Xml,
                workload: Workload::DeepChain { depth: 40_000 },
                scenario: Scenario::Delivery { plan: benign.clone() },
            }),
            7 if thorough => Some(IoTrace {
                format: Format::BinNone,
                workload: Workload::DeepChain { depth: 100_000 },
                scenario: Scenario::Delivery { plan: benign.clone() },
            }),
            8 if thorough => Some(IoTrace {
                format: Format::Xml,
                workload: Workload::DeepChain { depth: 6_000 },
                scenario: Scenario::WriteBenign { plan: WritePlan { mode: 2, intr_permille: 30, seed: 3 } },
            }),
            9 if thorough => Some(IoTrace {
                format: Format::XmlUnknown,
                workload: Workload::DeepChain { depth: 3_000 },
                scenario: Scenario::Prefixes { only: None, stride: 211 },
            }),
            // One chunk with more than 1 MiB / 2 MiB of payload actually present
            // (incompressible, so the compressed form is that large too).
            10 | 11 | 12 | 13 => {
                let len = if index % 2 == 0 { 1_300_000 } else { 2_400_000 };
                let mut rr = Rng::new(index);
                Some(IoTrace {
                    format: if index < 12 { Format::BinNone } else { Format::BinLz4 },
                    workload: Workload::Dom {
                        tree: NodeSpec {
                            class: "Folder".into(),
                            name: "big".into(),
                            props: vec![("VerifHuge".into(), ValSpec::Bytes(rr.bytes(len)))],
                            children: vec![],
                        },
                    },
                    scenario: Scenario::Delivery { plan: ReadPlan { mode: 2, intr_permille: 30, seed: index } },
                })
            }
            // A 100 KB string / byte string / shared string in an uncompressed file, its
            // length prefix edited in each of the twelve ways.
            14..=49 => {
                let k = index - 14;
                let how = (k % 12) as u8;
                let mut rr = Rng::new(index / 12);
                let v = match k / 12 {
                    0 => ValSpec::Str("s".repeat(100_000)),
                    1 => ValSpec::Bytes(rr.bytes(100_000)),
                    _ => ValSpec::Shared(rr.bytes(100_000)),
                };
                Some(IoTrace {
                    format: Format::BinNone,
                    workload: Workload::Dom {
                        tree: NodeSpec { class: "Folder".into(), name: "big".into(), props: vec![("VerifLargeValue".into(), v)], children: vec![] },
                    },
                    scenario: Scenario::Damage { edits: vec![Edit::LenEdit { which: 0, how }], plan: benign.clone() },
                })
            }
            // An instance with a known Ref property (pointing at a sibling) and a known
            // shared-string property: each of the two elements duplicated under each
            // type that takes any text, with and without another text, in two reader modes.
            50..=97 => {
                let k = (index - 50) as u32;
                let ty = k % 6;
                let text = (k / 6) % 2;
                let which = (k / 12) % 2;
                let format = if k / 24 == 0 { Format::Xml } else { Format::XmlUnknown };
                let arg = (1u32 << 20) | (ty << 8) | (1 - text);
                Some(IoTrace {
                    format,
                    workload: Workload::Dom {
                        tree: NodeSpec {
                            class: "Model".into(),
                            name: "m".into(),
                            props: vec![("PrimaryPart".into(), ValSpec::Ref(RefT::Node(1)))],
                            children: vec![
                                NodeSpec { class: "Part".into(), name: "p".into(), props: vec![], children: vec![] },
                                NodeSpec {
                                    class: "MeshPart".into(),
                                    name: "mp".into(),
                                    props: vec![("PhysicalConfigData".into(), ValSpec::Shared(b"rbxsim shared".to_vec()))],
                                    children: vec![],
                                },
                                NodeSpec {
                                    class: "ObjectValue".into(),
                                    name: "ov".into(),
                                    props: vec![("Value".into(), ValSpec::Ref(RefT::Node(0)))],
                                    children: vec![],
                                },
                            ],
                        },
                    },
                    scenario: Scenario::Damage { edits: vec![Edit::Xml { op: 12, which, arg }], plan: benign.clone() },
                })
            }
            // The same instance; the `name` attribute of each referent / shared-string
            // element replaced by six other texts (a property the database does not know).
            98..=115 => {
                let k = (index - 98) as u32;
                let which = k % 3;
                let arg = (1u32 << 20) + 7 * (k / 3);
                Some(IoTrace {
                    format: Format::Xml,
                    workload: Workload::Dom {
                        tree: NodeSpec {
                            class: "Model".into(),
                            name: "m".into(),
                            props: vec![("PrimaryPart".into(), ValSpec::Ref(RefT::Node(1)))],
                            children: vec![
                                NodeSpec { class: "Part".into(), name: "p".into(), props: vec![], children: vec![] },
                                NodeSpec {
                                    class: "MeshPart".into(),
                                    name: "mp".into(),
                                    props: vec![("PhysicalConfigData".into(), ValSpec::Shared(b"rbxsim shared".to_vec()))],
                                    children: vec![],
                                },
                                NodeSpec {
                                    class: "ObjectValue".into(),
                                    name: "ov".into(),
                                    props: vec![("Value".into(), ValSpec::Ref(RefT::Node(0)))],
                                    children: vec![],
                                },
                            ],
                        },
                    },
                    scenario: Scenario::Damage { edits: vec![Edit::Xml { op: 5, which, arg }], plan: benign.clone() },
                })
            }
            _ => None,
        };
        if let Some(t) = scripted {
            return serde_json::to_value(&t).unwrap();
        }

        let mut r = Rng::new(run_seed);
        let format = self.gen_format(&mut r);
        // Scenario mix is re-drawn per run from one of a few swarm profiles.
        let profile = r.below(4);
        let weights: [u32; 8] = match profile {
            0 => [10, 14, 12, 10, 10, 8, 36, 0],
            1 => [4, 8, 8, 6, 6, 6, 60, 2],
            2 => [20, 10, 10, 14, 20, 14, 12, 0],
            _ => [8, 20, 20, 14, 8, 8, 20, 2],
        };
        let kind = r.weighted(&weights);
        let small = matches!(kind, 0 | 4);
        let workload = if format == Format::Attr {
            Workload::Attr { attrs: self.gen_attr_workload(&mut r) }
        } else if kind == 6 && r.chance(1, 8) {
            Workload::Random {
                len: r.range(0, 300) as u32,
                seed: r.next_u64() >> 16,
                valid_header: r.chance(2, 3),
            }
        } else {
            Workload::Dom { tree: self.gen_tree(&mut r, small) }
        };
        if format.is_bin() && r.chance(1, 40) {
            // A file as an older writer would have produced it: legacy and alias
            // property names on a class the database knows. Built under a
            // made-up class name (so the serializer writes the names verbatim),
            // then the INST chunk is renamed to the real class.
            let legacy = |name: &str, ty: &str, r: &mut Rng| (name.to_string(), ValSpec::G { ty: ty.to_string(), s: r.below(1 << 20) });
            let (real_class, props): (u8, Vec<(String, ValSpec)>) = if r.chance(1, 2) {
                (0, vec![legacy("BrickColor", "BrickColor", &mut r), legacy("size", "Vector3", &mut r), legacy("Color3uint8", "Color3uint8", &mut r), legacy("formFactorRaw", "Enum", &mut r), legacy("Anchored", "Bool", &mut r)])
            } else {
                (2, vec![legacy("Font", "Enum", &mut r), legacy("Text", "String", &mut r), legacy("TextColor", "BrickColor", &mut r), legacy("FontSize", "Enum", &mut r)])
            };
            let n = r.range(1, 3) as usize;
            let mut picked: Vec<(String, ValSpec)> = Vec::new();
            for p in props {
                if r.chance(2, 3) {
                    picked.push(p);
                }
            }
            let children: Vec<NodeSpec> = (1..n).map(|i| NodeSpec { class: "VerifLegacy".into(), name: format!("l{}", i), props: picked.clone(), children: vec![] }).collect();
            let tree = NodeSpec { class: "VerifLegacy".into(), name: "legacy".into(), props: picked, children };
            let mut edits = vec![Edit::InstRename { which: 0, class: real_class }];
            if r.chance(1, 2) {
                edits.push(self.gen_edit(&mut r, Format::BinNone));
            }
            let t = IoTrace { format: Format::BinNone, workload: Workload::Dom { tree }, scenario: Scenario::Damage { edits, plan: self.gen_read_plan(&mut r) } };
            return serde_json::to_value(&t).unwrap();
        }
        let scenario = match kind {
            0 => Scenario::Prefixes { only: None, stride: if thorough || r.chance(3, 4) { 1 } else { r.range(3, 17) as u32 } },
            1 => Scenario::Delivery { plan: self.gen_read_plan(&mut r) },
            2 => Scenario::ReadErr { at: r.next_u64() as u32, kind: r.below(8) as u8, plan: self.gen_read_plan(&mut r) },
            3 => Scenario::WriteBenign { plan: self.gen_write_plan(&mut r) },
            4 => Scenario::WriteErr {
                only: None,
                kind: r.below(8) as u8,
                zero: r.chance(1, 4),
                stride: if thorough || r.chance(3, 4) { 1 } else { r.range(2, 9) as u32 },
                plan: if r.chance(1, 2) { WritePlan { mode: 0, intr_permille: 0, seed: 0 } } else { self.gen_write_plan(&mut r) },
            },
            5 => Scenario::Crash { at: r.next_u64() as u32, sector: *r.pick(&[1u32, 1, 512, 4096]) },
            6 => {
                let n = match r.below(10) {
                    0..=5 => 1,
                    6..=8 => 2,
                    _ => r.range(3, 6) as usize,
                };
                Scenario::Damage {
                    edits: (0..n).map(|_| self.gen_edit(&mut r, format)).collect(),
                    plan: self.gen_read_plan(&mut r),
                }
            }
            _ => Scenario::BufWriterProbe { at: r.next_u64() as u32 },
        };
        serde_json::to_value(&IoTrace { format, workload, scenario }).unwrap()
    }

    fn execute(&self, trace: &Value, ctx: &mut RunCtx) {
        let t: IoTrace = match serde_json::from_value(trace.clone()) {
            Ok(t) => t,
            Err(e) => {
                ctx.violate("harness|bad-trace", e.to_string());
                return;
            }
        };
        let scen = format!("{:?}", t.scenario);
        let scen = scen.split([' ', '{']).next().unwrap_or("").to_string();
        ctx.count(&format!("scenario:{}", scen));
        self.exec_inner(&t, ctx);
    }

    fn narrow(&self, trace: &Value, ctx: &RunCtx) -> Value {
        let k = match ctx.counters.get("narrow_k") {
            Some(k) => *k as u32,
            None => return trace.clone(),
        };
        let mut t: IoTrace = match serde_json::from_value(trace.clone()) {
            Ok(t) => t,
            Err(_) => return trace.clone(),
        };
        match &mut t.scenario {
            Scenario::Prefixes { only, .. } => *only = Some(k),
            Scenario::WriteErr { only, .. } => *only = Some(k),
            _ => {}
        }
        serde_json::to_value(&t).unwrap()
    }

    fn abort_key(&self, trace: &Value, how: &str) -> String {
        let t: Option<IoTrace> = serde_json::from_value(trace.clone()).ok();
        match t {
            Some(t) => {
                let w = match t.workload {
                    Workload::DeepChain { .. } => "deep-chain",
                    Workload::Random { .. } => "random-bytes",
                    _ => "generated",
                };
                let dir = match t.scenario {
                    Scenario::WriteBenign { .. } | Scenario::WriteErr { .. } | Scenario::BufWriterProbe { .. } => "write",
                    Scenario::Crash { .. } => "write+read",
                    _ => "read",
                };
                format!("abort|{}|{}|{}|{}", how, t.format.tag(), w, dir)
            }
            None => format!("abort|{}|iosim", how),
        }
    }

    fn shrink_candidates(&self, trace: &Value, _key: &str) -> Vec<Value> {
        let t: IoTrace = match serde_json::from_value(trace.clone()) {
            Ok(t) => t,
            Err(_) => return vec![],
        };
        let mut out: Vec<IoTrace> = Vec::new();
        // 1. simpler workloads
        match &t.workload {
            Workload::Dom { tree } => {
                for cand in shrink_tree(tree) {
                    out.push(IoTrace { workload: Workload::Dom { tree: cand }, ..t.clone() });
                }
            }
            Workload::Attr { attrs } => {
                for i in 0..attrs.len() {
                    let mut a = attrs.clone();
                    a.remove(i);
                    out.push(IoTrace { workload: Workload::Attr { attrs: a }, ..t.clone() });
                }
            }
            Workload::Random { len, seed, valid_header } => {
                if *len > 0 {
                    out.push(IoTrace { workload: Workload::Random { len: len / 2, seed: *seed, valid_header: *valid_header }, ..t.clone() });
                    out.push(IoTrace { workload: Workload::Random { len: len - 1, seed: *seed, valid_header: *valid_header }, ..t.clone() });
                }
            }
            Workload::DeepChain { depth } => {
                if *depth > 1 {
                    out.push(IoTrace { workload: Workload::DeepChain { depth: depth / 2 }, ..t.clone() });
                    out.push(IoTrace { workload: Workload::DeepChain { depth: depth - depth / 8 - 1 }, ..t.clone() });
                }
            }
            Workload::Literal { .. } => {}
        }
        // 2. simpler scenarios
        let plain_r = ReadPlan { mode: 0, intr_permille: 0, seed: 0 };
        let plain_w = WritePlan { mode: 0, intr_permille: 0, seed: 0 };
        match &t.scenario {
            Scenario::Damage { edits, plan } => {
                for i in 0..edits.len() {
                    if edits.len() > 1 {
                        let mut e = edits.clone();
                        e.remove(i);
                        out.push(IoTrace { scenario: Scenario::Damage { edits: e, plan: plan.clone() }, ..t.clone() });
                    }
                }
                if *plan != plain_r {
                    out.push(IoTrace { scenario: Scenario::Damage { edits: edits.clone(), plan: plain_r.clone() }, ..t.clone() });
                }
            }
            Scenario::Delivery { plan } => {
                if plan.intr_permille != 0 {
                    out.push(IoTrace { scenario: Scenario::Delivery { plan: ReadPlan { intr_permille: 0, ..plan.clone() } }, ..t.clone() });
                }
                if plan.mode == 2 {
                    out.push(IoTrace { scenario: Scenario::Delivery { plan: ReadPlan { mode: 1, ..plan.clone() } }, ..t.clone() });
                }
            }
            Scenario::ReadErr { at, kind, plan } => {
                if *plan != plain_r {
                    out.push(IoTrace { scenario: Scenario::ReadErr { at: *at, kind: *kind, plan: plain_r.clone() }, ..t.clone() });
                }
                if *kind != 0 {
                    out.push(IoTrace { scenario: Scenario::ReadErr { at: *at, kind: 0, plan: plan.clone() }, ..t.clone() });
                }
            }
            Scenario::WriteBenign { plan } => {
                if plan.intr_permille != 0 {
                    out.push(IoTrace { scenario: Scenario::WriteBenign { plan: WritePlan { intr_permille: 0, ..plan.clone() } }, ..t.clone() });
                }
                if plan.mode != 0 {
                    out.push(IoTrace { scenario: Scenario::WriteBenign { plan: WritePlan { mode: 0, ..plan.clone() } }, ..t.clone() });
                }
            }
            Scenario::WriteErr { only, kind, zero, stride, plan } => {
                if *plan != plain_w {
                    out.push(IoTrace { scenario: Scenario::WriteErr { only: *only, kind: *kind, zero: *zero, stride: *stride, plan: plain_w.clone() }, ..t.clone() });
                }
                if *kind != 0 && !*zero {
                    out.push(IoTrace { scenario: Scenario::WriteErr { only: *only, kind: 0, zero: *zero, stride: *stride, plan: plan.clone() }, ..t.clone() });
                }
            }
            Scenario::Crash { at, sector } => {
                if *sector != 1 {
                    out.push(IoTrace { scenario: Scenario::Crash { at: *at, sector: 1 }, ..t.clone() });
                }
            }
            _ => {}
        }
        out.into_iter().map(|t| serde_json::to_value(&t).unwrap()).collect()
    }

    fn distinct_rule(&self, _property: &str) -> String {
        "One evaluation is one call of a real encoder/decoder under a fault plan. A case is counted in distinct_nontrivial when a fault actually fired after the code under test had consumed or produced more than 32 bytes; cases are distinct by (format, scenario kind, set of fault kinds that fired, structural location class of the first fault [binary: header / chunk kind header or payload / PROP wire type; XML: tag, attribute value, closing tag, text, CDATA, entity], outcome class ok/err/panic).".into()
    }

    fn assumptions(&self, _property: &str) -> Vec<String> {
        vec![
            "Inputs are at most 2 MiB; the memory oracle's ceilings (64 MiB per request, 256 MiB peak) are absolute and justified by that bound.".into(),
            "Every decode runs on a thread with a 2 MiB stack (Rust's default for spawned threads).".into(),
            "Equality of decoded DOMs is by canonical text (shape, order, class, name, sorted properties, bit-exact floats except NaN payloads nested inside Debug-rendered types, referents by position).".into(),
            "lz4/zstd C libraries run real code; allocations they make through malloc are not seen by the counting allocator.".into(),
            "BufWriter hiding a failed final flush in Drop is run and counted as a probe but not asserted (the W handed to the serializer did not fail).".into(),
        ]
    }
}

/// Simpler trees: drop a subtree, drop a property, simplify a value, hoist a child.
pub fn shrink_tree(tree: &NodeSpec) -> Vec<NodeSpec> {
    let mut out = Vec::new();
    // hoist each child as the new root
    for c in &tree.children {
        out.push(c.clone());
    }
    // drop all children
    if !tree.children.is_empty() {
        let mut t = tree.clone();
        t.children.clear();
        out.push(t);
    }
    // drop each child / recurse
    for i in 0..tree.children.len() {
        let mut t = tree.clone();
        t.children.remove(i);
        out.push(t);
    }
    // drop all props
    if tree.props.len() > 1 {
        let mut t = tree.clone();
        t.props.clear();
        out.push(t);
    }
    for i in 0..tree.props.len() {
        let mut t = tree.clone();
        t.props.remove(i);
        out.push(t);
    }
    if tree.name != "a" {
        let mut t = tree.clone();
        t.name = "a".into();
        out.push(t);
    }
    for i in 0..tree.props.len() {
        if let ValSpec::G { ty, s } = &tree.props[i].1 {
            if *s != 0 {
                let mut t = tree.clone();
                t.props[i].1 = ValSpec::G { ty: ty.clone(), s: 0 };
                out.push(t);
            }
        }
    }
    for i in 0..tree.children.len() {
        for sub in shrink_tree(&tree.children[i]) {
            let mut t = tree.clone();
            t.children[i] = sub;
            out.push(t);
        }
    }
    out
}

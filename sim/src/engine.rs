//! Common engine interface: a seed is expanded into an explicit trace, traces
//! are executed, violations carry a key and are shrunk while the key persists.

use std::collections::{BTreeMap, BTreeSet};

use serde_json::Value;

/// Progress counter read by the worker's heartbeat thread: bumped before every
/// call into the code under test, so that a long but progressing run is not
/// mistaken for a hang.
pub static PROGRESS: std::sync::atomic::AtomicU64 = std::sync::atomic::AtomicU64::new(0);

#[inline]
pub fn tick() {
    PROGRESS.fetch_add(1, std::sync::atomic::Ordering::Relaxed);
}

#[derive(Clone, Debug)]
pub struct Violation {
    pub key: String,
    pub detail: String,
}

#[derive(Default)]
pub struct RunCtx {
    pub counters: BTreeMap<String, u64>,
    pub distinct: BTreeSet<u64>,
    pub violations: Vec<Violation>,
    /// Digest of the run's event log; equal seeds must give equal digests.
    pub log: crate::prng::Digest,
    pub evals: u64,
    /// When set, the engine executes only the oracles of this property.
    pub property: String,
    pub thorough: bool,
    /// Quiet mode for shrinking: no counters matter.
    pub shrinking: bool,
    /// Labelled output digests that must not depend on the process (compared
    /// across worker processes that differ in their per-process hash keys).
    pub outputs: Vec<(String, u64)>,
}

impl RunCtx {
    pub fn new(property: &str, thorough: bool) -> RunCtx {
        RunCtx {
            property: property.to_string(),
            thorough,
            ..Default::default()
        }
    }
    #[inline]
    pub fn count(&mut self, name: &str) {
        self.add(name, 1)
    }
    pub fn add(&mut self, name: &str, n: u64) {
        if let Some(v) = self.counters.get_mut(name) {
            *v += n;
        } else {
            self.counters.insert(name.to_string(), n);
        }
    }
    pub fn violate(&mut self, key: impl Into<String>, detail: impl Into<String>) {
        let key = key.into();
        self.log.str(&key);
        self.violations.push(Violation {
            key,
            detail: detail.into(),
        });
    }
    pub fn has_key(&self, key: &str) -> bool {
        self.violations.iter().any(|v| v.key == key)
    }
}

pub trait Engine: Sync {
    fn name(&self) -> &'static str;
    /// Expands a run seed into an explicit, serialisable trace.
    fn generate(&self, run_seed: u64, index: u64, property: &str, thorough: bool) -> Value;
    /// Executes a trace. Must be deterministic given (env seed, trace).
    fn execute(&self, trace: &Value, ctx: &mut RunCtx);
    /// Simpler variants of a trace, most aggressive first.
    fn shrink_candidates(&self, trace: &Value, key: &str) -> Vec<Value>;
    /// Narrow an enumerating trace to the single failing case, if applicable.
    fn narrow(&self, trace: &Value, _ctx: &RunCtx) -> Value {
        trace.clone()
    }
    /// Key for a run that killed its worker process (abort, stack overflow,
    /// refused allocation, hang).
    fn abort_key(&self, trace: &Value, how: &str) -> String {
        let _ = trace;
        format!("abort|{}|{}", how, self.name())
    }
    /// The rule behind `distinct_nontrivial`, for the evidence file.
    fn distinct_rule(&self, property: &str) -> String;
    fn assumptions(&self, property: &str) -> Vec<String>;
    /// Number of scripted (non-random) scenarios that occupy the first indices.
    fn scripted(&self, _property: &str, _thorough: bool) -> u64 {
        0
    }
}

/// Runs a trace with every seam reset from `run_seed` first.
/// Every run executes on a thread of its own (2 MiB stack, Rust's default for
/// spawned threads), so that thread-local state inside the code under test
/// cannot travel from one run to the next: a run's outcome is then a function
/// of its trace alone, whatever ran before it in the same worker process.
pub fn run_trace(engine: &dyn Engine, run_seed: u64, trace: &Value, ctx: &mut RunCtx) {
    let joined = std::thread::scope(|s| {
        std::thread::Builder::new()
            .name("sim-run".into())
            .stack_size(2 << 20)
            .spawn_scoped(s, || {
                crate::env::begin_run(run_seed);
                engine.execute(trace, ctx);
            })
            .expect("spawn sim-run")
            .join()
    });
    if let Err(payload) = joined {
        // A panic that escaped the engine is a harness bug, never a verdict.
        std::panic::resume_unwind(payload);
    }
}

/// Delta-debugs `trace` while a violation with `key` persists.
pub fn shrink(
    engine: &dyn Engine,
    run_seed: u64,
    trace: &Value,
    key: &str,
    property: &str,
    thorough: bool,
    max_attempts: usize,
) -> (Value, usize) {
    let mut best = trace.clone();
    let mut attempts = 0usize;
    let mut progress = true;
    while progress && attempts < max_attempts {
        progress = false;
        for cand in engine.shrink_candidates(&best, key) {
            if attempts >= max_attempts {
                break;
            }
            if cand == best {
                continue;
            }
            attempts += 1;
            let mut ctx = RunCtx::new(property, thorough);
            ctx.shrinking = true;
            run_trace(engine, run_seed, &cand, &mut ctx);
            if ctx.has_key(key) {
                best = cand;
                progress = true;
                break;
            }
        }
    }
    (best, attempts)
}

/// Several engines behind one check: run index decides which part runs.
pub struct Composite {
    pub name: &'static str,
    pub parts: Vec<(Box<dyn Engine>, u64)>,
}

impl Composite {
    fn part_of(&self, index: u64) -> usize {
        let total: u64 = self.parts.iter().map(|p| p.1).sum();
        let mut x = index % total.max(1);
        for (i, p) in self.parts.iter().enumerate() {
            if x < p.1 {
                return i;
            }
            x -= p.1;
        }
        0
    }
    fn unwrap<'a>(&self, trace: &'a Value) -> (usize, &'a Value) {
        let i = trace["part"].as_u64().unwrap_or(0) as usize;
        (i.min(self.parts.len() - 1), &trace["t"])
    }
}

impl Engine for Composite {
    fn name(&self) -> &'static str {
        self.name
    }
    fn generate(&self, run_seed: u64, index: u64, property: &str, thorough: bool) -> Value {
        let i = self.part_of(index);
        serde_json::json!({"part": i, "engine": self.parts[i].0.name(), "t": self.parts[i].0.generate(run_seed, index, property, thorough)})
    }
    fn execute(&self, trace: &Value, ctx: &mut RunCtx) {
        let (i, t) = self.unwrap(trace);
        ctx.count(&format!("part:{}", self.parts[i].0.name()));
        self.parts[i].0.execute(t, ctx)
    }
    fn shrink_candidates(&self, trace: &Value, key: &str) -> Vec<Value> {
        let (i, t) = self.unwrap(trace);
        self.parts[i]
            .0
            .shrink_candidates(t, key)
            .into_iter()
            .map(|c| serde_json::json!({"part": i, "engine": self.parts[i].0.name(), "t": c}))
            .collect()
    }
    fn narrow(&self, trace: &Value, ctx: &RunCtx) -> Value {
        let (i, t) = self.unwrap(trace);
        serde_json::json!({"part": i, "engine": self.parts[i].0.name(), "t": self.parts[i].0.narrow(t, ctx)})
    }
    fn abort_key(&self, trace: &Value, how: &str) -> String {
        let (i, t) = self.unwrap(trace);
        self.parts[i].0.abort_key(t, how)
    }
    fn distinct_rule(&self, property: &str) -> String {
        self.parts
            .iter()
            .map(|p| format!("[{}] {}", p.0.name(), p.0.distinct_rule(property)))
            .collect::<Vec<_>>()
            .join(" ")
    }
    fn assumptions(&self, property: &str) -> Vec<String> {
        let mut v = Vec::new();
        for p in &self.parts {
            for a in p.0.assumptions(property) {
                if !v.contains(&a) {
                    v.push(a);
                }
            }
        }
        v
    }
}

mod engine;
mod detsim;
mod domsim;
mod env;
mod iosim;
mod orch;
mod panic;
mod prng;
mod sched;
mod schedsim;
mod spec;
mod worker;

use serde_json::json;

#[global_allocator]
static ALLOC: env::CountingAlloc = env::CountingAlloc;

pub fn make_engine(name: &str) -> Box<dyn engine::Engine> {
    match name {
        "iosim" => Box::new(iosim::IoSim::new()),
        "schedsim" => Box::new(schedsim::SchedSim::new()),
        "domsim" => Box::new(domsim::DomSim::new()),
        "detsim" => Box::new(detsim::DetSim::new()),
        "domsim+schedsim" => Box::new(engine::Composite {
            name: "domsim+schedsim",
            parts: vec![
                (Box::new(domsim::DomSim::new()) as Box<dyn engine::Engine>, 3),
                (Box::new(schedsim::SchedSim::new()) as Box<dyn engine::Engine>, 1),
            ],
        }),
        other => {
            eprintln!("rbxsim: unknown engine {}", other);
            std::process::exit(2);
        }
    }
}

fn components() -> serde_json::Value {
    json!({
        "real": ["rbx_types", "rbx_dom_weak", "rbx_binary", "rbx_xml", "rbx_reflection", "rbx_reflection_database", "xml-rs", "lz4", "zstd", "blake3", "ahash", "ustr"],
        "real_wrapped_by_yield_shim": ["std::sync::{Arc,Weak,Mutex} in shared_string.rs", "AtomicU32 INDEX in unique_id.rs"],
        "stub": ["reader (SimReader)", "writer/disk (SimWriter)", "OS clock", "thread RNG", "Ref RNG", "per-process and per-map hash keys"],
        "replaced": ["OS scheduler: real OS threads, only the one the simulator releases runs"]
    })
}

fn check_cfg(property: &str, thorough: bool) -> Option<orch::CheckCfg> {
    let workers = std::thread::available_parallelism().map(|n| n.get()).unwrap_or(4).min(16);
    let scale: u64 = std::env::var("RBXSIM_SCALE").ok().and_then(|s| s.parse().ok()).unwrap_or(100);
    let (engine, level, runs_q, runs_t, chunk) = match property {
        "C13" => ("iosim", "fault_enumeration", 240_000u64, 6_000_000u64, 1000u64),
        "C18" => ("schedsim", "exploration", 120_000u64, 3_000_000u64, 1000u64),
        "C07" => ("detsim", "exploration", 60_000u64, 1_500_000u64, 500u64),
        "C09" => ("domsim", "exploration", 300_000u64, 8_000_000u64, 2000u64),
        "C10" => ("domsim", "exploration", 300_000u64, 8_000_000u64, 2000u64),
        "C11" => ("domsim", "exploration", 300_000u64, 8_000_000u64, 2000u64),
        "C12" => ("domsim+schedsim", "exploration", 200_000u64, 5_000_000u64, 1000u64),
        _ => return None,
    };
    let runs = (if thorough { runs_t } else { runs_q }) * scale / 100;
    Some(orch::CheckCfg {
        property: property.to_string(),
        engine: engine.to_string(),
        level: level.to_string(),
        thorough,
        runs,
        chunk,
        workers,
        // generous: a loaded machine must not turn a slow run into a "hang"
        hang_limit_s: if thorough { 90.0 } else { 40.0 },
        soft_deadline_s: if thorough { 1500.0 } else { 100.0 },
        det_mod: if thorough { 17 } else { 13 },
        det_chunks: if thorough { 256 } else { 32 },
        max_shrink: 300,
        extra_assumptions: vec![],
        cross_env: property == "C07",
        components: components(),
    })
}

fn main() {
    let args: Vec<String> = std::env::args().collect();
    let code = match args.get(1).map(|s| s.as_str()) {
        Some("worker") => worker::worker_main(&args[2]),
        Some("exec-trace") => worker::exec_trace_main(&args[2], args.get(3).and_then(|s| s.parse().ok())),
        Some("replay") => orch::replay_main(&args[2]),
        Some("check") => {
            let property = args.get(2).cloned().unwrap_or_default();
            let thorough = args.get(3).map(|s| s == "thorough").unwrap_or(false);
            match check_cfg(&property, thorough) {
                Some(cfg) => orch::run_check(cfg),
                None => {
                    eprintln!("rbxsim: no check for property {}", property);
                    2
                }
            }
        }
        _ => {
            eprintln!("usage: rbxsim check <ID> <quick|thorough> | replay <file> | worker <job> | exec-trace <file>");
            2
        }
    };
    std::process::exit(code);
}

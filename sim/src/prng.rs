//! Seed discipline: one integer decides everything. SplitMix64, own
//! implementation so that no `rand` version can change a trace.

#[derive(Clone, Debug)]
pub struct Rng(pub u64);

#[inline]
pub fn mix64(mut z: u64) -> u64 {
    z = (z ^ (z >> 30)).wrapping_mul(0xbf58476d1ce4e5b9);
    z = (z ^ (z >> 27)).wrapping_mul(0x94d049bb133111eb);
    z ^ (z >> 31)
}

/// Combines a seed with a stream tag into an independent sub-seed.
pub fn derive(seed: u64, tag: u64) -> u64 {
    mix64(mix64(seed ^ 0x9e3779b97f4a7c15).wrapping_add(tag.wrapping_mul(0xd6e8feb86659fd93)))
}

pub fn tag(s: &str) -> u64 {
    // FNV-1a, only used to turn stream names into integers.
    let mut h: u64 = 0xcbf29ce484222325;
    for b in s.bytes() {
        h ^= b as u64;
        h = h.wrapping_mul(0x100000001b3);
    }
    h
}

impl Rng {
    pub fn new(seed: u64) -> Rng {
        Rng(seed)
    }

    pub fn fork(&self, name: &str) -> Rng {
        Rng(derive(self.0, tag(name)))
    }

    #[inline]
    pub fn next_u64(&mut self) -> u64 {
        self.0 = self.0.wrapping_add(0x9e3779b97f4a7c15);
        mix64(self.0)
    }

    /// Uniform in `0..n` (n > 0). Modulo bias is irrelevant here.
    #[inline]
    pub fn below(&mut self, n: u64) -> u64 {
        debug_assert!(n > 0);
        self.next_u64() % n
    }

    #[inline]
    pub fn usize_below(&mut self, n: usize) -> usize {
        self.below(n as u64) as usize
    }

    /// Uniform in `lo..=hi`.
    #[inline]
    pub fn range(&mut self, lo: u64, hi: u64) -> u64 {
        lo + self.below(hi - lo + 1)
    }

    /// True with probability `num/den`.
    #[inline]
    pub fn chance(&mut self, num: u64, den: u64) -> bool {
        self.below(den) < num
    }

    pub fn pick<'a, T>(&mut self, items: &'a [T]) -> &'a T {
        &items[self.usize_below(items.len())]
    }

    /// Picks an index according to integer weights.
    pub fn weighted(&mut self, weights: &[u32]) -> usize {
        let total: u64 = weights.iter().map(|w| *w as u64).sum();
        if total == 0 {
            return 0;
        }
        let mut x = self.below(total);
        for (i, w) in weights.iter().enumerate() {
            if x < *w as u64 {
                return i;
            }
            x -= *w as u64;
        }
        weights.len() - 1
    }

    pub fn shuffle<T>(&mut self, items: &mut [T]) {
        for i in (1..items.len()).rev() {
            let j = self.usize_below(i + 1);
            items.swap(i, j);
        }
    }

    pub fn bytes(&mut self, len: usize) -> Vec<u8> {
        let mut out = Vec::with_capacity(len);
        while out.len() < len {
            let v = self.next_u64().to_le_bytes();
            let take = (len - out.len()).min(8);
            out.extend_from_slice(&v[..take]);
        }
        out
    }
}

/// 64-bit FNV-style digest used for event-log digests and distinct counting.
#[derive(Clone)]
pub struct Digest(pub u64);

impl Digest {
    pub fn new() -> Digest {
        Digest(0x6a09e667f3bcc908)
    }
    #[inline]
    pub fn u64(&mut self, v: u64) {
        self.0 = mix64(self.0 ^ v).wrapping_add(0x9e3779b97f4a7c15);
    }
    pub fn bytes(&mut self, b: &[u8]) {
        self.u64(b.len() as u64);
        for chunk in b.chunks(8) {
            let mut w = [0u8; 8];
            w[..chunk.len()].copy_from_slice(chunk);
            self.u64(u64::from_le_bytes(w));
        }
    }
    pub fn str(&mut self, s: &str) {
        self.bytes(s.as_bytes())
    }
    pub fn finish(&self) -> u64 {
        mix64(self.0)
    }
}

impl Default for Digest {
    fn default() -> Self {
        Digest::new()
    }
}

pub fn digest_bytes(b: &[u8]) -> u64 {
    let mut d = Digest::new();
    d.bytes(b);
    d.finish()
}

//! Orchestrator: spawns worker processes, survives their aborts and hangs,
//! confirms and classifies them, applies the known-findings list, verifies
//! replays in fresh processes, proves determinism on a sample, writes evidence.

use std::collections::{BTreeMap, BTreeSet, VecDeque};
use std::path::{Path, PathBuf};
use std::process::{Child, Command, Stdio};
use std::time::{Duration, Instant};

use serde_json::{json, Value};

use crate::worker::{FoundViolation, Job, JobResult};

pub struct CheckCfg {
    pub property: String,
    pub engine: String,
    pub level: String,
    pub thorough: bool,
    pub runs: u64,
    pub chunk: u64,
    pub workers: usize,
    pub hang_limit_s: f64,
    pub soft_deadline_s: f64,
    pub det_mod: u64,
    pub det_chunks: usize,
    pub max_shrink: usize,
    /// Re-run every index in another process under other per-process hash
    /// keys and compare the labelled outputs (C07).
    pub cross_env: bool,
    pub extra_assumptions: Vec<String>,
    pub components: Value,
}

pub fn verif_root() -> String {
    std::env::var("RBXSIM_ROOT").unwrap_or_else(|_| "/verif".to_string())
}

pub fn base_seed() -> u64 {
    std::env::var("VERIF_SEED")
        .ok()
        .and_then(|s| s.trim().parse::<u64>().ok())
        .unwrap_or(20261002)
}

struct Running {
    child: Child,
    job: Job,
    job_path: PathBuf,
    stderr_path: PathBuf,
    kind: JobKind,
    last_index: String,
    last_change: Instant,
}

#[derive(Clone, Debug, PartialEq)]
enum JobKind {
    Main,
    /// A run whose shrinking killed the worker: re-run without shrinking.
    NoShrink,
    /// Same indices under another env seed (other per-process hash keys).
    CrossEnv,
    Confirm { index: u64, how: String },
    Determinism,
}

#[derive(Default)]
pub struct Aggregate {
    pub runs: u64,
    pub evals: u64,
    pub counters: BTreeMap<String, u64>,
    pub distinct: BTreeSet<u64>,
    pub violations: BTreeMap<String, FoundViolation>,
    pub violation_counts: BTreeMap<String, u64>,
    pub digests: BTreeMap<u64, u64>,
    pub samples: Vec<Value>,
    pub not_run: u64,
    pub aborts_confirmed: Vec<(u64, String, u64)>,
    pub aborts_unconfirmed: Vec<(u64, String)>,
    pub det_pairs: u64,
    pub det_mismatch: Vec<u64>,
    pub worker_restarts: u64,
    pub harness_errors: Vec<String>,
    pub outputs: BTreeMap<u64, (u64, Vec<(String, u64)>)>,
    pub cross_pairs: u64,
    /// label -> (index, env seed a, env seed b)
    pub cross_mismatch: BTreeMap<String, (u64, u64, u64)>,
    pub cross_mismatch_count: BTreeMap<String, u64>,
}

impl Aggregate {
    fn counters_mut_shrink_deaths(&mut self) {
        *self.counters.entry("worker_deaths_while_shrinking".into()).or_insert(0) += 1;
    }
}

fn signal_name(sig: i32) -> &'static str {
    match sig {
        6 => "SIGABRT",
        9 => "SIGKILL",
        11 => "SIGSEGV",
        7 => "SIGBUS",
        4 => "SIGILL",
        _ => "signal",
    }
}

fn classify_death(status: &std::process::ExitStatus, stderr_tail: &str, hung: bool) -> String {
    use std::os::unix::process::ExitStatusExt;
    if hung {
        return "hang".into();
    }
    if stderr_tail.contains("RBXSIM-ALLOC-REFUSED") {
        return "alloc-refused".into();
    }
    if stderr_tail.contains("has overflowed its stack") {
        return "stack-overflow".into();
    }
    if stderr_tail.contains("memory allocation of") {
        return "alloc-failed".into();
    }
    if let Some(sig) = status.signal() {
        return signal_name(sig).into();
    }
    format!("exit-{}", status.code().unwrap_or(-1))
}

fn tail_of(path: &Path) -> String {
    match std::fs::read(path) {
        Ok(b) => {
            let s = String::from_utf8_lossy(&b);
            let n = s.len();
            s[n.saturating_sub(2000)..].to_string()
        }
        Err(_) => String::new(),
    }
}

fn state_head(path: &Path) -> Option<String> {
    let s = std::fs::read_to_string(path).ok()?;
    s.split_whitespace().next().map(|t| t.to_string())
}

fn read_state(path: &Path) -> Option<u64> {
    state_head(path)?.trim_end_matches('S').parse().ok()
}

/// Index plus progress counter: changes whenever the worker makes progress.
fn read_progress(path: &Path) -> Option<String> {
    std::fs::read_to_string(path).ok().map(|s| s.trim().to_string())
}

fn died_while_shrinking(path: &Path) -> bool {
    state_head(path).map(|s| s.ends_with('S')).unwrap_or(false)
}

pub struct Orchestrator {
    pub cfg: CheckCfg,
    pub work: PathBuf,
    pub base_seed: u64,
    next_job_id: u64,
}

impl Orchestrator {
    pub fn new(cfg: CheckCfg) -> Orchestrator {
        let tier = if cfg.thorough { "thorough" } else { "quick" };
        let work = PathBuf::from(verif_root()).join("work").join(format!("{}-{}", cfg.property, tier));
        let _ = std::fs::remove_dir_all(&work);
        std::fs::create_dir_all(&work).expect("create work dir");
        Orchestrator { cfg, work, base_seed: base_seed(), next_job_id: 0 }
    }

    pub fn env_seed_for_chunk(&self, chunk: u64) -> u64 {
        crate::prng::derive(self.base_seed, 0x656e76 ^ (chunk << 8))
    }

    fn make_job(&mut self, indices: Vec<u64>, env_seed: u64, digest_mod: u64, deadline: f64) -> (Job, PathBuf) {
        let id = self.next_job_id;
        self.next_job_id += 1;
        let job = Job {
            engine: self.cfg.engine.clone(),
            property: self.cfg.property.clone(),
            thorough: self.cfg.thorough,
            env_seed,
            base_seed: self.base_seed,
            indices,
            state_file: self.work.join(format!("job{}.state", id)),
            out_file: self.work.join(format!("job{}.out.json", id)),
            digest_mod,
            max_shrink: self.cfg.max_shrink,
            soft_deadline_s: deadline,
            samples_wanted: 2,
            record_outputs: self.cfg.cross_env,
        };
        let path = self.work.join(format!("job{}.json", id));
        std::fs::write(&path, serde_json::to_string(&job).unwrap()).expect("write job");
        (job, path)
    }

    fn spawn(&self, job: Job, job_path: PathBuf, kind: JobKind) -> Running {
        let stderr_path = job_path.with_extension("stderr");
        let stderr = std::fs::File::create(&stderr_path).expect("stderr file");
        let exe = std::env::current_exe().expect("current exe");
        let child = Command::new(exe)
            .arg("worker")
            .arg(&job_path)
            .stdin(Stdio::null())
            .stdout(Stdio::null())
            .stderr(stderr)
            .env("RUST_BACKTRACE", "0")
            .spawn()
            .expect("spawn worker");
        Running {
            child,
            job,
            job_path,
            stderr_path,
            kind,
            last_index: String::new(),
            last_change: Instant::now(),
        }
    }

    fn merge(&self, agg: &mut Aggregate, res: JobResult, kind: &JobKind, env_seed: u64) {
        match kind {
            JobKind::CrossEnv => {
                agg.evals += res.evals;
                for (k, v) in res.violation_counts {
                    *agg.violation_counts.entry(k).or_insert(0) += v;
                }
                for v in res.violations {
                    agg.violations.entry(v.key.clone()).or_insert(v);
                }
                for (idx, outs) in res.outputs {
                    if let Some((env_a, prim)) = agg.outputs.get(&idx) {
                        agg.cross_pairs += 1;
                        let a: BTreeMap<&String, u64> = prim.iter().map(|(k, v)| (k, *v)).collect();
                        for (label, d) in &outs {
                            match a.get(label) {
                                Some(pd) if pd == d => {}
                                _ => {
                                    *agg.cross_mismatch_count.entry(label.clone()).or_insert(0) += 1;
                                    agg.cross_mismatch.entry(label.clone()).or_insert((idx, *env_a, env_seed));
                                }
                            }
                        }
                        if outs.len() != prim.len() {
                            *agg.cross_mismatch_count.entry("(set of outputs)".into()).or_insert(0) += 1;
                            agg.cross_mismatch.entry("(set of outputs)".into()).or_insert((idx, *env_a, env_seed));
                        }
                    }
                }
            }
            JobKind::Determinism => {
                for (idx, d) in res.digests {
                    if let Some(prev) = agg.digests.get(&idx) {
                        agg.det_pairs += 1;
                        if *prev != d {
                            agg.det_mismatch.push(idx);
                        }
                    }
                }
            }
            _ => {
                agg.runs += res.runs;
                agg.evals += res.evals;
                for (k, v) in res.counters {
                    *agg.counters.entry(k).or_insert(0) += v;
                }
                agg.distinct.extend(res.distinct);
                for (k, v) in res.violation_counts {
                    *agg.violation_counts.entry(k).or_insert(0) += v;
                }
                for v in res.violations {
                    let better = match agg.violations.get(&v.key) {
                        None => true,
                        Some(old) => v.trace.to_string().len() < old.trace.to_string().len(),
                    };
                    if better {
                        agg.violations.insert(v.key.clone(), v);
                    }
                }
                for (i, d) in res.digests {
                    agg.digests.insert(i, d);
                }
                if agg.samples.len() < 6 {
                    agg.samples.extend(res.samples);
                }
                agg.not_run += res.not_run.len() as u64;
                for (idx, outs) in res.outputs {
                    agg.outputs.insert(idx, (env_seed, outs));
                }
            }
        }
    }

    /// Runs the whole plan and returns the aggregate.
    pub fn run_all(&mut self) -> Aggregate {
        let mut agg = Aggregate::default();
        let total = self.cfg.runs;
        let chunk = self.cfg.chunk.max(1);
        let n_chunks = (total + chunk - 1) / chunk;
        let start = Instant::now();
        let mut queue: VecDeque<(Vec<u64>, u64, JobKind)> = VecDeque::new();
        for c in 0..n_chunks {
            let lo = c * chunk;
            let hi = ((c + 1) * chunk).min(total);
            queue.push_back(((lo..hi).collect(), self.env_seed_for_chunk(c), JobKind::Main));
        }
        self.run_phase(&mut queue, &mut agg, start);

        if self.cfg.cross_env {
            let dead: BTreeSet<u64> = agg.aborts_confirmed.iter().map(|a| a.0).collect();
            for c in 0..n_chunks {
                let lo = c * chunk;
                let hi = ((c + 1) * chunk).min(total);
                let idx: Vec<u64> = (lo..hi).filter(|i| !dead.contains(i) && agg.outputs.contains_key(i)).collect();
                if !idx.is_empty() {
                    let other = crate::prng::derive(self.env_seed_for_chunk(c), 0xc055);
                    queue.push_back((idx, other, JobKind::CrossEnv));
                }
            }
            self.run_phase(&mut queue, &mut agg, Instant::now());
        }

        // Determinism phase: the sampled indices of several chunks are re-run
        // in other processes, in reverse order, under the same env seed, and
        // their event-log digests compared with the primary ones.
        if self.cfg.det_mod > 0 {
            let dead: BTreeSet<u64> = agg.aborts_confirmed.iter().map(|a| a.0).collect();
            let step = (n_chunks / self.cfg.det_chunks.max(1) as u64).max(1);
            let mut c = 0;
            let mut added = 0;
            while c < n_chunks && added < self.cfg.det_chunks {
                let lo = c * chunk;
                let hi = ((c + 1) * chunk).min(total);
                let mut idx: Vec<u64> = (lo..hi)
                    .filter(|i| i % self.cfg.det_mod == 0 && !dead.contains(i) && agg.digests.contains_key(i))
                    .collect();
                idx.reverse();
                if !idx.is_empty() {
                    queue.push_back((idx, self.env_seed_for_chunk(c), JobKind::Determinism));
                    added += 1;
                }
                c += step;
            }
            self.run_phase(&mut queue, &mut agg, Instant::now());
        }
        agg
    }

    fn run_phase(&mut self, queue: &mut VecDeque<(Vec<u64>, u64, JobKind)>, agg: &mut Aggregate, start: Instant) {
        let mut running: Vec<Running> = Vec::new();
        loop {
            while running.len() < self.cfg.workers {
                let next = match queue.pop_front() {
                    Some(j) => j,
                    None => break,
                };
                let (digest_mod, deadline) = match next.2 {
                    JobKind::Determinism => (1, 0.0),
                    JobKind::Confirm { .. } => (self.cfg.det_mod, 0.0),
                    JobKind::NoShrink => (self.cfg.det_mod, 0.0),
                    JobKind::CrossEnv => (0, 0.0),
                    JobKind::Main => (
                        self.cfg.det_mod,
                        (self.cfg.soft_deadline_s - start.elapsed().as_secs_f64()).max(1.0),
                    ),
                };
                let (mut job, path) = self.make_job(next.0, next.1, digest_mod, deadline);
                if next.2 == JobKind::NoShrink || next.2 == JobKind::CrossEnv {
                    job.max_shrink = 0;
                    std::fs::write(&path, serde_json::to_string(&job).unwrap()).expect("write job");
                }
                running.push(self.spawn(job, path, next.2));
            }
            if running.is_empty() && queue.is_empty() {
                break;
            }
            std::thread::sleep(Duration::from_millis(15));
            let mut i = 0;
            while i < running.len() {
                let r = &mut running[i];
                if let Some(cur) = read_progress(&r.job.state_file) {
                    if cur != r.last_index {
                        r.last_index = cur;
                        r.last_change = Instant::now();
                    }
                }
                let limit = match r.kind {
                    JobKind::Confirm { .. } => self.cfg.hang_limit_s * 4.0,
                    _ => self.cfg.hang_limit_s,
                };
                let mut hung = false;
                if r.last_change.elapsed().as_secs_f64() > limit {
                    let _ = r.child.kill();
                    hung = true;
                }
                match r.child.try_wait() {
                    Ok(Some(status)) => {
                        let r = running.remove(i);
                        self.finish_job(r, status, hung, agg, queue);
                    }
                    Ok(None) => {
                        if hung {
                            let status = r.child.wait().expect("wait killed child");
                            let r = running.remove(i);
                            self.finish_job(r, status, true, agg, queue);
                        } else {
                            i += 1;
                        }
                    }
                    Err(e) => {
                        agg.harness_errors.push(format!("try_wait: {}", e));
                        running.remove(i);
                    }
                }
            }
        }
    }

    fn finish_job(
        &mut self,
        r: Running,
        status: std::process::ExitStatus,
        hung: bool,
        agg: &mut Aggregate,
        queue: &mut VecDeque<(Vec<u64>, u64, JobKind)>,
    ) {
        let ok = status.success() && !hung;
        if ok {
            match std::fs::read_to_string(&r.job.out_file).ok().and_then(|t| serde_json::from_str::<JobResult>(&t).ok()) {
                Some(res) => {
                    if let JobKind::Confirm { index, how } = &r.kind {
                        // The isolated re-run survived: the death did not reproduce.
                        agg.aborts_unconfirmed.push((*index, how.clone()));
                    }
                    self.merge(agg, res, &r.kind, r.job.env_seed);
                }
                None => agg.harness_errors.push(format!("worker {:?} exited 0 without a result", r.job_path)),
            }
            let _ = std::fs::remove_file(&r.job.out_file);
            return;
        }
        let tail = tail_of(&r.stderr_path);
        if status.code() == Some(2) {
            agg.harness_errors.push(format!("worker reported a harness error: {}", tail.trim()));
            return;
        }
        let how = classify_death(&status, &tail, hung);
        let died_at = read_state(&r.job.state_file);
        match &r.kind {
            JobKind::Confirm { index, how: first_how } => {
                let _ = first_how;
                agg.aborts_confirmed.push((*index, how, r.job.env_seed));
            }
            JobKind::NoShrink => {
                agg.harness_errors.push(format!("run index {:?} killed its worker ({}) even without shrinking, but was not confirmed as an abort", died_at, how));
            }
            JobKind::Main | JobKind::Determinism | JobKind::CrossEnv => {
                agg.worker_restarts += 1;
                match died_at {
                    Some(idx) => {
                        // Everything before `idx` in this job is lost with the worker's
                        // memory: re-run it (cheap), confirm `idx` in isolation, and
                        // carry on after it.
                        let pos = r.job.indices.iter().position(|&i| i == idx).unwrap_or(0);
                        let before: Vec<u64> = r.job.indices[..pos].to_vec();
                        let after: Vec<u64> = r.job.indices[pos + 1..].to_vec();
                        if died_while_shrinking(&r.job.state_file) {
                            agg.counters_mut_shrink_deaths();
                            queue.push_front((vec![idx], r.job.env_seed, JobKind::NoShrink));
                        } else if r.kind == JobKind::Main {
                            queue.push_front((vec![idx], r.job.env_seed, JobKind::Confirm { index: idx, how: how.clone() }));
                        }
                        if !before.is_empty() {
                            queue.push_back((before, r.job.env_seed, r.kind.clone()));
                        }
                        if !after.is_empty() {
                            queue.push_back((after, r.job.env_seed, r.kind.clone()));
                        }
                    }
                    None => agg.harness_errors.push(format!("worker died ({}) before its first run: {}", how, tail.trim())),
                }
            }
        }
    }
}

// ---------------------------------------------------------------------------
// Known findings.

#[derive(Clone, Debug)]
pub struct KnownFinding {
    pub property: String,
    pub key: String,
    pub what: String,
}

pub fn load_known_findings() -> Vec<KnownFinding> {
    let path = PathBuf::from(verif_root()).join("known_findings.json");
    let text = match std::fs::read_to_string(path) {
        Ok(t) => t,
        Err(_) => return vec![],
    };
    let v: Value = match serde_json::from_str(&text) {
        Ok(v) => v,
        Err(e) => {
            eprintln!("known_findings.json does not parse: {}", e);
            std::process::exit(2);
        }
    };
    let mut out = Vec::new();
    if let Some(list) = v["findings"].as_array() {
        for f in list {
            out.push(KnownFinding {
                property: f["property"].as_str().unwrap_or("").to_string(),
                key: f["key"].as_str().unwrap_or("").to_string(),
                what: f["what"].as_str().unwrap_or("").to_string(),
            });
        }
    }
    out
}

// ---------------------------------------------------------------------------
// Replay files.

pub fn key_slug(key: &str) -> String {
    let mut s: String = key
        .chars()
        .map(|c| if c.is_ascii_alphanumeric() { c } else { '-' })
        .collect();
    s.truncate(60);
    format!("{}-{:08x}", s.trim_matches('-'), crate::prng::digest_bytes(key.as_bytes()) as u32)
}

pub fn replay_value(property: &str, engine: &str, thorough: bool, v: &FoundViolation, trace: &Value) -> Value {
    json!({
        "property": property,
        "engine": engine,
        "thorough": thorough,
        "env_seed": v.env_seed,
        "run_seed": v.run_seed,
        "index": v.index,
        "expect_key": v.key,
        "detail": v.detail,
        "trace": trace,
    })
}

/// Executes a replay file in a fresh process; returns the keys it produced,
/// or the way the process died.
pub fn exec_replay(path: &Path, limit_s: f64) -> Result<Vec<String>, String> {
    let exe = std::env::current_exe().expect("current exe");
    let stderr_path = path.with_extension("stderr");
    let stdout_path = path.with_extension("stdout");
    let mut child = Command::new(exe)
        .arg("exec-trace")
        .arg(path)
        .stdin(Stdio::null())
        .stdout(std::fs::File::create(&stdout_path).map_err(|e| e.to_string())?)
        .stderr(std::fs::File::create(&stderr_path).map_err(|e| e.to_string())?)
        .env("RUST_BACKTRACE", "0")
        .spawn()
        .map_err(|e| e.to_string())?;
    let start = Instant::now();
    let mut hung = false;
    let status = loop {
        match child.try_wait() {
            Ok(Some(s)) => break s,
            Ok(None) => {
                if start.elapsed().as_secs_f64() > limit_s {
                    let _ = child.kill();
                    hung = true;
                    break child.wait().map_err(|e| e.to_string())?;
                }
                std::thread::sleep(Duration::from_millis(10));
            }
            Err(e) => return Err(e.to_string()),
        }
    };
    let out = std::fs::read_to_string(&stdout_path).unwrap_or_default();
    let tail = tail_of(&stderr_path);
    let _ = std::fs::remove_file(&stdout_path);
    let _ = std::fs::remove_file(&stderr_path);
    if status.success() && !hung && out.contains("DONE") {
        Ok(out
            .lines()
            .filter_map(|l| l.strip_prefix("KEY ").map(|s| s.to_string()))
            .collect())
    } else {
        Err(classify_death(&status, &tail, hung))
    }
}

/// Executes a replay file under a given env seed in a fresh process and
/// returns its labelled outputs.
pub fn exec_outputs(path: &Path, env_seed: u64, limit_s: f64) -> Result<BTreeMap<String, String>, String> {
    let exe = std::env::current_exe().expect("current exe");
    let out = Command::new(exe)
        .arg("exec-trace")
        .arg(path)
        .arg(env_seed.to_string())
        .stdin(Stdio::null())
        .stderr(Stdio::null())
        .env("RUST_BACKTRACE", "0")
        .output()
        .map_err(|e| e.to_string())?;
    let _ = limit_s;
    let text = String::from_utf8_lossy(&out.stdout).to_string();
    if !out.status.success() || !text.contains("DONE") {
        return Err("died".into());
    }
    let mut map = BTreeMap::new();
    for l in text.lines() {
        if let Some(rest) = l.strip_prefix("OUTPUT ") {
            if let Some((label, d)) = rest.rsplit_once(' ') {
                map.insert(label.to_string(), d.to_string());
            }
        }
    }
    Ok(map)
}

/// True if the labelled output of the replay differs between the two env seeds.
pub fn cross_differs(path: &Path, label: &str, env_a: u64, env_b: u64) -> Result<bool, String> {
    let a = exec_outputs(path, env_a, 60.0)?;
    let b = exec_outputs(path, env_b, 60.0)?;
    if label == "(set of outputs)" {
        return Ok(a.keys().collect::<Vec<_>>() != b.keys().collect::<Vec<_>>());
    }
    Ok(a.get(label) != b.get(label))
}

// ---------------------------------------------------------------------------
// The check driver.

pub fn run_check(cfg: CheckCfg) -> i32 {
    let started = Instant::now();
    let property = cfg.property.clone();
    let engine_name = cfg.engine.clone();
    let thorough = cfg.thorough;
    let level = cfg.level.clone();
    let tier = if thorough { "thorough" } else { "quick" };
    let extra_assumptions = cfg.extra_assumptions.clone();
    let components = cfg.components.clone();
    let hang_limit = cfg.hang_limit_s;
    let mut orch = Orchestrator::new(cfg);
    let seed = orch.base_seed;
    println!("rbxsim: property={} engine={} tier={} VERIF_SEED={} runs={} workers={}", property, engine_name, tier, seed, orch.cfg.runs, orch.cfg.workers);
    let mut agg = orch.run_all();

    // The orchestrator needs an engine instance to regenerate traces of runs
    // that killed their worker.
    crate::env::install(0);
    crate::panic::install_hook();
    let engine = crate::make_engine(&engine_name);

    let replay_dir = PathBuf::from(verif_root()).join("replays").join(&property);
    // Replays are written only for violations found by this run.
    let _ = std::fs::remove_dir_all(&replay_dir);
    let known = load_known_findings();
    let known_for_prop: Vec<&KnownFinding> = known.iter().filter(|k| k.property == property).collect();

    // Confirmed aborts become violations keyed by how the process died.
    let confirmed = agg.aborts_confirmed.clone();
    for (index, how, env_seed) in confirmed {
        let run_seed = crate::worker::run_seed_for(seed, &engine_name, &property, index);
        let trace = engine.generate(run_seed, index, &property, thorough);
        let key = engine.abort_key(&trace, &how);
        *agg.violation_counts.entry(key.clone()).or_insert(0) += 1;
        agg.violations.entry(key.clone()).or_insert(FoundViolation {
            key,
            detail: format!("worker process died ({}) while executing run index {}; confirmed by an isolated re-run", how, index),
            index,
            run_seed,
            env_seed,
            trace: trace.clone(),
            original_trace: trace,
            shrink_attempts: 0,
        });
    }
    for (index, how) in &agg.aborts_unconfirmed {
        agg.harness_errors.push(format!("worker died ({}) at run index {} but the isolated re-run survived", how, index));
    }
    if !agg.det_mismatch.is_empty() {
        agg.harness_errors.push(format!("determinism self-test failed for run indices {:?}", &agg.det_mismatch[..agg.det_mismatch.len().min(10)]));
    }

    // Outputs that differ between processes with different hash keys (C07).
    let cross: Vec<(String, (u64, u64, u64))> = agg.cross_mismatch.iter().map(|(k, v)| (k.clone(), *v)).collect();
    let mut cross_env_b: BTreeMap<String, (String, u64)> = BTreeMap::new();
    for (label, (index, env_a, env_b)) in cross {
        let run_seed = crate::worker::run_seed_for(seed, &engine_name, &property, index);
        let trace = engine.generate(run_seed, index, &property, thorough);
        let key = format!("cross-process|{}|differs-between-processes", label);
        let count = agg.cross_mismatch_count.get(&label).copied().unwrap_or(1);
        *agg.violation_counts.entry(key.clone()).or_insert(0) += count;
        // Orchestrator-level shrinking: every candidate is judged by two fresh processes.
        let scratch = orch.work.join(format!("cross-{}.json", key_slug(&key)));
        let mut best = trace.clone();
        let mut attempts = 0;
        let proto = FoundViolation { key: key.clone(), detail: String::new(), index, run_seed, env_seed: env_a, trace: trace.clone(), original_trace: trace.clone(), shrink_attempts: 0 };
        let mut progress = true;
        while progress && attempts < 80 {
            progress = false;
            for cand in engine.shrink_candidates(&best, &key) {
                if attempts >= 80 {
                    break;
                }
                attempts += 1;
                let _ = std::fs::write(&scratch, serde_json::to_string(&replay_value(&property, &engine_name, thorough, &proto, &cand)).unwrap());
                if let Ok(true) = cross_differs(&scratch, &label, env_a, env_b) {
                    best = cand;
                    progress = true;
                    break;
                }
            }
        }
        let _ = std::fs::remove_file(&scratch);
        cross_env_b.insert(key.clone(), (label.clone(), env_b));
        agg.violations.entry(key.clone()).or_insert(FoundViolation {
            key,
            detail: format!("output '{}' of run index {} differs between two worker processes that differ only in their per-process hash keys (env seeds {} and {})", label, index, env_a, env_b),
            index,
            run_seed,
            env_seed: env_a,
            trace: best,
            original_trace: trace,
            shrink_attempts: attempts,
        });
    }

    // Classify violations: known finding or new.
    let mut new_violations: Vec<(String, PathBuf)> = Vec::new();
    let mut known_observed: BTreeSet<String> = BTreeSet::new();
    let keys: Vec<String> = agg.violations.keys().cloned().collect();
    for key in keys {
        let v = agg.violations[&key].clone();
        if known_for_prop.iter().any(|k| k.key == key) {
            known_observed.insert(key.clone());
            let p = orch.work.join(format!("known-{}.json", key_slug(&key)));
            let _ = std::fs::write(&p, serde_json::to_string_pretty(&replay_value(&property, &engine_name, thorough, &v, &v.trace)).unwrap());
            continue;
        }
        // New: write the replay, verify it in a fresh process.
        let _ = std::fs::create_dir_all(&replay_dir);
        let path = replay_dir.join(format!("{}.json", key_slug(&key)));
        let is_abort = key.starts_with("abort|");
        let mut written = false;
        for (which, trace) in [("minimised", &v.trace), ("original", &v.original_trace)] {
            let mut rv = replay_value(&property, &engine_name, thorough, &v, trace);
            if let Some((label, env_b)) = cross_env_b.get(&key) {
                rv["env_seed_b"] = json!(env_b);
                rv["cross_label"] = json!(label);
                std::fs::write(&path, serde_json::to_string_pretty(&rv).unwrap()).expect("write replay");
                match cross_differs(&path, label, v.env_seed, *env_b) {
                    Ok(true) => {
                        written = true;
                        break;
                    }
                    other => {
                        eprintln!("rbxsim: {} trace for {} did not reproduce in fresh processes ({:?})", which, key, other);
                        continue;
                    }
                }
            }
            std::fs::write(&path, serde_json::to_string_pretty(&rv).unwrap()).expect("write replay");
            let outcome = exec_replay(&path, hang_limit * 4.0);
            let reproduced = match &outcome {
                Ok(keys) => keys.iter().any(|k| *k == key),
                Err(how) => is_abort && engine.abort_key(trace, how) == key,
            };
            if reproduced {
                written = true;
                break;
            }
            eprintln!("rbxsim: {} trace for {} did not reproduce in a fresh process ({:?})", which, key, outcome);
        }
        if written {
            new_violations.push((key.clone(), path));
        } else {
            let _ = std::fs::remove_file(&path);
            agg.harness_errors.push(format!("violation {} did not reproduce from its replay file", key));
        }
    }

    // Evidence.
    let wall = started.elapsed().as_secs_f64();
    let mut faults: BTreeMap<String, u64> = BTreeMap::new();
    let mut probes: BTreeMap<String, u64> = BTreeMap::new();
    let mut other: BTreeMap<String, u64> = BTreeMap::new();
    for (k, v) in &agg.counters {
        if let Some(name) = k.strip_prefix("fault_fired:") {
            faults.insert(name.to_string(), *v);
        } else if let Some(name) = k.strip_prefix("probe:") {
            probes.insert(name.to_string(), *v);
        } else {
            other.insert(k.clone(), *v);
        }
    }
    let mut samples = agg.samples.clone();
    samples.truncate(4);
    if samples.is_empty() {
        samples.push(json!({"note": "no sample recorded"}));
    }
    let known_list: Vec<Value> = known_for_prop
        .iter()
        .map(|k| json!({"key": k.key, "what": k.what, "observed_this_run": known_observed.contains(&k.key), "occurrences": agg.violation_counts.get(&k.key).copied().unwrap_or(0)}))
        .collect();
    let mut assumptions = engine.assumptions(&property);
    assumptions.extend(extra_assumptions);
    let evidence = json!({
        "property_id": property,
        "tier": tier,
        "seed": seed,
        "level": level,
        "wall_s": wall,
        "violations": new_violations.len(),
        "assumptions": assumptions,
        "coverage": {
            "evaluations": agg.evals.max(agg.runs),
            "distinct_nontrivial": agg.distinct.len(),
            "rule": engine.distinct_rule(&property),
            "samples": samples,
            "exhaustive": false,
            "simulated_runs": agg.runs,
            "runs_not_started_before_deadline": agg.not_run,
            "simulated_runs_per_hour": if wall > 0.0 { (agg.runs as f64 / wall * 3600.0) as u64 } else { 0 },
            "seeds_per_hour": if wall > 0.0 { (agg.runs as f64 / wall * 3600.0) as u64 } else { 0 },
            "fault_kinds_fired": faults,
            "probes": probes,
            "counters": other,
            "cross_process_pairs_compared": agg.cross_pairs,
            "determinism_pairs_checked": agg.det_pairs,
            "determinism_mismatches": agg.det_mismatch.len(),
            "worker_processes_restarted_after_abort_or_hang": agg.worker_restarts,
            "known_findings": known_list,
            "new_violation_keys": new_violations.iter().map(|(k, _)| k.clone()).collect::<Vec<_>>(),
            "components": components,
            "harness_errors": agg.harness_errors,
        }
    });
    let ev_dir = PathBuf::from(verif_root()).join("evidence");
    let _ = std::fs::create_dir_all(&ev_dir);
    std::fs::write(ev_dir.join(format!("{}.json", property)), serde_json::to_string_pretty(&evidence).unwrap()).expect("write evidence");
    // A per-tier copy, so that a quick run does not erase what the last thorough run covered.
    let tier_dir = ev_dir.join(tier);
    let _ = std::fs::create_dir_all(&tier_dir);
    let _ = std::fs::write(tier_dir.join(format!("{}.json", property)), serde_json::to_string_pretty(&evidence).unwrap());

    for k in &known_for_prop {
        println!(
            "KNOWN-FINDING: property={} {} [key={}] observed={}",
            property,
            k.what,
            k.key,
            if known_observed.contains(&k.key) { "yes" } else { "no" }
        );
    }
    println!(
        "rbxsim: {} runs, {} evaluations, {} distinct non-trivial cases, {} determinism pairs, {:.1}s",
        agg.runs,
        agg.evals,
        agg.distinct.len(),
        agg.det_pairs,
        wall
    );
    if !agg.harness_errors.is_empty() {
        for e in &agg.harness_errors {
            eprintln!("HARNESS-ERROR: {}", e);
        }
        if new_violations.is_empty() {
            return 2;
        }
    }
    if !new_violations.is_empty() {
        for (key, path) in &new_violations {
            let v = &agg.violations[key];
            println!("VIOLATION property={} replay={}", property, path.display());
            println!("  key: {}", key);
            println!("  detail: {}", v.detail);
            println!("  occurrences: {}", agg.violation_counts.get(key).copied().unwrap_or(1));
        }
        return 1;
    }
    0
}

/// `rbxsim replay <file>`: fresh-process re-execution of a replay file.
pub fn replay_main(path: &str) -> i32 {
    let text = match std::fs::read_to_string(path) {
        Ok(t) => t,
        Err(e) => {
            eprintln!("cannot read {}: {}", path, e);
            return 2;
        }
    };
    let v: Value = match serde_json::from_str(&text) {
        Ok(v) => v,
        Err(e) => {
            eprintln!("bad replay file: {}", e);
            return 2;
        }
    };
    let expect = v["expect_key"].as_str().unwrap_or("").to_string();
    let property = v["property"].as_str().unwrap_or("?").to_string();
    let engine_name = v["engine"].as_str().unwrap_or("").to_string();
    // exec_replay writes scratch files next to the replay; use a copy in work/.
    let work = PathBuf::from(verif_root()).join("work").join("replay");
    let _ = std::fs::create_dir_all(&work);
    let copy = work.join(format!("replay-{}.json", std::process::id()));
    if std::fs::write(&copy, &text).is_err() {
        eprintln!("cannot write scratch copy");
        return 2;
    }
    if let (Some(env_b), Some(label)) = (v["env_seed_b"].as_u64(), v["cross_label"].as_str()) {
        let env_a = v["env_seed"].as_u64().unwrap_or(0);
        let r = cross_differs(&copy, label, env_a, env_b);
        let _ = std::fs::remove_file(&copy);
        return match r {
            Ok(true) => {
                println!("VIOLATION property={} replay={}", property, path);
                println!("  reproduced key: {}", expect);
                1
            }
            Ok(false) => {
                println!("not reproduced: output '{}' is the same under env seeds {} and {}", label, env_a, env_b);
                0
            }
            Err(e) => {
                eprintln!("replay failed to execute: {}", e);
                2
            }
        };
    }
    let outcome = exec_replay(&copy, 240.0);
    let _ = std::fs::remove_file(&copy);
    let reproduced = match &outcome {
        Ok(keys) => {
            for k in keys {
                println!("observed key: {}", k);
            }
            keys.iter().any(|k| *k == expect)
        }
        Err(how) => {
            crate::env::install(0);
            let engine = crate::make_engine(&engine_name);
            let key = engine.abort_key(&v["trace"], how);
            println!("observed key: {}", key);
            key == expect
        }
    };
    if reproduced {
        println!("VIOLATION property={} replay={}", property, path);
        println!("  reproduced key: {}", expect);
        1
    } else {
        println!("not reproduced: expected key {}", expect);
        0
    }
}

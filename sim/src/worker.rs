//! Worker process: runs a slice of run indices for one engine under one env
//! seed, on one thread with an explicit 2 MiB stack.

use std::collections::BTreeMap;
use std::io::Write;
use std::path::PathBuf;
use std::time::Instant;

use serde::{Deserialize, Serialize};
use serde_json::Value;

use crate::engine::{self, Engine, RunCtx};
use crate::prng::derive;

#[derive(Clone, Debug, Serialize, Deserialize)]
pub struct Job {
    pub engine: String,
    pub property: String,
    pub thorough: bool,
    pub env_seed: u64,
    pub base_seed: u64,
    /// Explicit list of run indices, in execution order.
    pub indices: Vec<u64>,
    pub state_file: PathBuf,
    pub out_file: PathBuf,
    /// Record a per-run digest for indices divisible by this (0 = none).
    pub digest_mod: u64,
    pub max_shrink: usize,
    /// Stop starting new runs after this many seconds.
    pub soft_deadline_s: f64,
    pub samples_wanted: usize,
    #[serde(default)]
    pub record_outputs: bool,
}

#[derive(Clone, Debug, Serialize, Deserialize)]
pub struct FoundViolation {
    pub key: String,
    pub detail: String,
    pub index: u64,
    pub run_seed: u64,
    pub env_seed: u64,
    pub trace: Value,
    pub original_trace: Value,
    pub shrink_attempts: usize,
}

#[derive(Clone, Debug, Default, Serialize, Deserialize)]
pub struct JobResult {
    pub runs: u64,
    pub evals: u64,
    pub counters: BTreeMap<String, u64>,
    pub distinct: Vec<u64>,
    pub violations: Vec<FoundViolation>,
    pub violation_counts: BTreeMap<String, u64>,
    pub digests: Vec<(u64, u64)>,
    pub samples: Vec<Value>,
    pub not_run: Vec<u64>,
    pub wall_s: f64,
    #[serde(default)]
    pub outputs: Vec<(u64, Vec<(String, u64)>)>,
}

pub fn run_seed_for(base_seed: u64, engine: &str, property: &str, index: u64) -> u64 {
    derive(derive(base_seed, crate::prng::tag(engine) ^ crate::prng::tag(property)), index)
}

pub fn write_state(path: &PathBuf, index: u64) {
    if let Ok(mut f) = std::fs::OpenOptions::new().write(true).create(true).truncate(false).open(path) {
        let _ = f.write_all(format!("{:020}\n", index).as_bytes());
    }
}

pub fn run_job(job: &Job, engine: &dyn Engine) -> JobResult {
    let start = Instant::now();
    let mut res = JobResult::default();
    let mut distinct = std::collections::BTreeSet::new();
    let mut state = std::fs::OpenOptions::new()
        .write(true)
        .create(true)
        .truncate(true)
        .open(&job.state_file)
        .ok();
    // Heartbeat: a helper thread rewrites the state file once a second with
    // the current index (and phase marker) plus the progress counter.
    let cur = std::sync::Arc::new(std::sync::Mutex::new(String::new()));
    let done = std::sync::Arc::new(std::sync::atomic::AtomicBool::new(false));
    {
        let cur = cur.clone();
        let done = done.clone();
        let path = job.state_file.clone();
        std::thread::spawn(move || {
            use std::os::unix::fs::FileExt;
            let f = std::fs::OpenOptions::new().write(true).create(true).truncate(false).open(&path);
            if let Ok(f) = f {
                while !done.load(std::sync::atomic::Ordering::Relaxed) {
                    std::thread::sleep(std::time::Duration::from_millis(500));
                    let head = cur.lock().map(|g| g.clone()).unwrap_or_default();
                    if head.is_empty() {
                        continue;
                    }
                    let p = crate::engine::PROGRESS.load(std::sync::atomic::Ordering::Relaxed);
                    let _ = f.write_all_at(format!("{} {:020}\n", head, p).as_bytes(), 0);
                }
            }
        });
    }
    for (pos, &index) in job.indices.iter().enumerate() {
        if job.soft_deadline_s > 0.0 && start.elapsed().as_secs_f64() > job.soft_deadline_s {
            res.not_run.extend_from_slice(&job.indices[pos..]);
            break;
        }
        if let Some(f) = state.as_mut() {
            use std::os::unix::fs::FileExt;
            let head = format!("{:020} ", index);
            let _ = f.write_all_at(format!("{} {:020}\n", head, 0).as_bytes(), 0);
            if let Ok(mut g) = cur.lock() {
                *g = head;
            }
        }
        let run_seed = run_seed_for(job.base_seed, &job.engine, &job.property, index);
        let trace = engine.generate(run_seed, index, &job.property, job.thorough);
        let mut ctx = RunCtx::new(&job.property, job.thorough);
        engine::run_trace(engine, run_seed, &trace, &mut ctx);
        res.runs += 1;
        res.evals += ctx.evals;
        for (k, v) in &ctx.counters {
            if k == "narrow_k" {
                continue;
            }
            *res.counters.entry(k.clone()).or_insert(0) += v;
        }
        distinct.extend(ctx.distinct.iter().copied());
        if job.record_outputs {
            res.outputs.push((index, ctx.outputs.clone()));
        }
        if job.digest_mod > 0 && index % job.digest_mod == 0 {
            res.digests.push((index, ctx.log.finish()));
        }
        if res.samples.len() < job.samples_wanted && ctx.violations.is_empty() && ctx.evals > 0 && index % 7 == 3 {
            // with the schedule / narrowing the engine recorded for this run
            res.samples.push(engine.narrow(&trace, &ctx));
        }
        if !ctx.violations.is_empty() {
            if let Some(f) = state.as_mut() {
                use std::os::unix::fs::FileExt;
                // Phase marker: a death from here on happened while shrinking.
                let head = format!("{:020}S", index);
                let _ = f.write_all_at(head.as_bytes(), 0);
                if let Ok(mut g) = cur.lock() {
                    *g = head;
                }
            }
            let narrowed = engine.narrow(&trace, &ctx);
            let mut seen = std::collections::BTreeSet::new();
            for v in &ctx.violations {
                if !seen.insert(v.key.clone()) {
                    continue;
                }
                let n = res.violation_counts.entry(v.key.clone()).or_insert(0);
                *n += 1;
                if *n > 1 {
                    // One minimised witness per key per worker is enough.
                    continue;
                }
                let (min, attempts) = engine::shrink(
                    engine,
                    run_seed,
                    &narrowed,
                    &v.key,
                    &job.property,
                    job.thorough,
                    job.max_shrink,
                );
                // Re-run the minimised trace for its detail text.
                let mut c2 = RunCtx::new(&job.property, job.thorough);
                c2.shrinking = true;
                engine::run_trace(engine, run_seed, &min, &mut c2);
                let detail = c2
                    .violations
                    .iter()
                    .find(|x| x.key == v.key)
                    .map(|x| x.detail.clone())
                    .unwrap_or_else(|| v.detail.clone());
                res.violations.push(FoundViolation {
                    key: v.key.clone(),
                    detail,
                    index,
                    run_seed,
                    env_seed: job.env_seed,
                    trace: min,
                    original_trace: trace.clone(),
                    shrink_attempts: attempts,
                });
            }
        }
    }
    done.store(true, std::sync::atomic::Ordering::Relaxed);
    res.distinct = distinct.into_iter().collect();
    res.wall_s = start.elapsed().as_secs_f64();
    res
}

/// Entry point of `rbxsim worker <job.json>`.
pub fn worker_main(job_path: &str) -> i32 {
    let text = match std::fs::read_to_string(job_path) {
        Ok(t) => t,
        Err(e) => {
            eprintln!("rbxsim worker: cannot read job {}: {}", job_path, e);
            return 2;
        }
    };
    let job: Job = match serde_json::from_str(&text) {
        Ok(j) => j,
        Err(e) => {
            eprintln!("rbxsim worker: bad job: {}", e);
            return 2;
        }
    };
    crate::env::install(job.env_seed);
    crate::panic::install_hook();
    let job2 = job.clone();
    let handle = std::thread::Builder::new()
        .name("sim-main".into())
        .stack_size(2 << 20)
        .spawn(move || {
            let engine = crate::make_engine(&job2.engine);
            run_job(&job2, engine.as_ref())
        })
        .expect("spawn sim-main");
    match handle.join() {
        Ok(res) => {
            let text = serde_json::to_string(&res).unwrap();
            let tmp = job.out_file.with_extension("tmp");
            if std::fs::write(&tmp, text).is_err() || std::fs::rename(&tmp, &job.out_file).is_err() {
                eprintln!("rbxsim worker: cannot write result");
                return 2;
            }
            0
        }
        Err(_) => {
            eprintln!("rbxsim worker: simulation thread panicked outside a caught region");
            3
        }
    }
}

/// Entry point of `rbxsim exec-trace <replay.json>`: executes one trace in
/// this (fresh) process and prints the violation keys it produced.
pub fn exec_trace_main(path: &str, env_override: Option<u64>) -> i32 {
    let text = match std::fs::read_to_string(path) {
        Ok(t) => t,
        Err(e) => {
            eprintln!("cannot read {}: {}", path, e);
            return 2;
        }
    };
    let v: Value = match serde_json::from_str(&text) {
        Ok(v) => v,
        Err(e) => {
            eprintln!("bad replay file: {}", e);
            return 2;
        }
    };
    let env_seed = env_override.unwrap_or_else(|| v["env_seed"].as_u64().unwrap_or(0));
    let run_seed = v["run_seed"].as_u64().unwrap_or(0);
    let engine_name = v["engine"].as_str().unwrap_or("").to_string();
    let property = v["property"].as_str().unwrap_or("").to_string();
    let thorough = v["thorough"].as_bool().unwrap_or(false);
    let trace = v["trace"].clone();
    crate::env::install(env_seed);
    crate::panic::install_hook();
    let handle = std::thread::Builder::new()
        .name("sim-main".into())
        .stack_size(2 << 20)
        .spawn(move || {
            let engine = crate::make_engine(&engine_name);
            let mut ctx = RunCtx::new(&property, thorough);
            engine::run_trace(engine.as_ref(), run_seed, &trace, &mut ctx);
            ctx
        })
        .expect("spawn");
    match handle.join() {
        Ok(ctx) => {
            let mut keys = std::collections::BTreeSet::new();
            for v in &ctx.violations {
                if keys.insert(v.key.clone()) {
                    println!("KEY {}", v.key);
                    println!("DETAIL {}", v.detail.replace('\n', " "));
                }
            }
            for (label, d) in &ctx.outputs {
                println!("OUTPUT {} {:016x}", label, d);
            }
            println!("DIGEST {:016x}", ctx.log.finish());
            println!("DONE");
            0
        }
        Err(_) => 3,
    }
}

//! Seams owned by the simulator: per-process hash keys (getrandom custom
//! backend), per-map hash keys (ahash random source), `Ref` values, the clock
//! and RNG behind `UniqueId::now()`, and a counting allocator.

use std::alloc::{GlobalAlloc, Layout, System};
use std::sync::atomic::{AtomicBool, AtomicU64, AtomicUsize, Ordering};
use std::sync::Mutex;
use std::time::{Duration, SystemTime, UNIX_EPOCH};

use crate::prng::{derive, mix64};

// ---------------------------------------------------------------------------
// Per-process hash keys: getrandom 0.3 custom backend (used by ahash's
// "fixed seeds", which ustr uses for every interned string).

static ENV_SEED: AtomicU64 = AtomicU64::new(0);
static ENV_SEED_SET: AtomicBool = AtomicBool::new(false);
static GETRANDOM_CTR: AtomicU64 = AtomicU64::new(0);

pub fn set_env_seed(seed: u64) {
    ENV_SEED.store(seed, Ordering::SeqCst);
    ENV_SEED_SET.store(true, Ordering::SeqCst);
}

pub fn env_seed() -> u64 {
    ENV_SEED.load(Ordering::SeqCst)
}

#[no_mangle]
unsafe extern "Rust" fn __getrandom_v03_custom(
    dest: *mut u8,
    len: usize,
) -> Result<(), getrandom::Error> {
    if !ENV_SEED_SET.load(Ordering::SeqCst) {
        // The env seed must be installed before the first hash key is drawn.
        let msg = b"rbxsim: getrandom called before set_env_seed\n";
        libc::write(2, msg.as_ptr() as *const libc::c_void, msg.len());
        libc::abort();
    }
    let seed = ENV_SEED.load(Ordering::SeqCst);
    let out = std::slice::from_raw_parts_mut(dest, len);
    for chunk in out.chunks_mut(8) {
        let c = GETRANDOM_CTR.fetch_add(1, Ordering::SeqCst);
        let v = mix64(derive(seed, 0x6772 ^ c)).to_le_bytes();
        chunk.copy_from_slice(&v[..chunk.len()]);
    }
    Ok(())
}

// ---------------------------------------------------------------------------
// Per-map hash keys: ahash RandomSource.

static MAP_SEED: AtomicU64 = AtomicU64::new(1);

struct MapSeedSource;

impl ahash::random_state::RandomSource for MapSeedSource {
    fn gen_hasher_seed(&self) -> usize {
        let c = MAP_SEED.fetch_add(0x9e3779b97f4a7c15, Ordering::Relaxed);
        mix64(c) as usize
    }
}

/// Resets the stream from which every `AHashMap::new()` draws its keys.
pub fn reset_map_seed(seed: u64) {
    MAP_SEED.store(derive(seed, 0x6d6170), Ordering::Relaxed);
}

// ---------------------------------------------------------------------------
// Ref values (hook H4).

static REF_KEY: AtomicU64 = AtomicU64::new(0);
static REF_CTR: AtomicU64 = AtomicU64::new(0);
static REF_ON: AtomicBool = AtomicBool::new(false);

pub fn reset_ref_stream(seed: u64) {
    REF_KEY.store(derive(seed, 0x726566), Ordering::Relaxed);
    REF_CTR.store(0, Ordering::Relaxed);
    REF_ON.store(true, Ordering::Relaxed);
}

pub fn refs_drawn() -> u64 {
    REF_CTR.load(Ordering::Relaxed)
}

fn hook_next_ref() -> Option<u128> {
    if !REF_ON.load(Ordering::Relaxed) {
        return None;
    }
    let c = REF_CTR.fetch_add(1, Ordering::Relaxed);
    let hi = mix64(REF_KEY.load(Ordering::Relaxed) ^ c.wrapping_mul(0xa24baed4963ee407));
    // Low half is the counter, so values within a run are pairwise distinct
    // and non-zero by construction.
    Some(((hi as u128) << 64) | ((c + 1) as u128))
}

// ---------------------------------------------------------------------------
// Clock and RNG behind UniqueId::now() (hook H3).

/// Seconds after the Unix epoch at which a simulated run starts. Chosen inside
/// the window in which `UniqueId::now()` can succeed.
pub const SIM_T0: u64 = 1_800_000_000;

#[derive(Clone, Debug, serde::Serialize, serde::Deserialize, PartialEq)]
pub enum ClockFault {
    /// Time advances by one second per call.
    Tick,
    /// The clock never advances.
    Frozen,
    /// Per call: signed jump in seconds taken cyclically from the list.
    Jumps(Vec<i64>),
}

#[derive(Clone, Debug, serde::Serialize, serde::Deserialize, PartialEq)]
pub enum RngFault {
    /// Seeded PRNG stream.
    Seeded,
    /// Every draw returns the same (odd) value.
    Constant(u64),
    /// Draws repeat a short cycle of odd values.
    Cycle(Vec<u64>),
}

pub struct UidEnv {
    pub clock: ClockFault,
    pub rng: RngFault,
    pub now_secs: i64,
    pub calls_clock: u64,
    pub calls_rng: u64,
    pub rng_state: u64,
    pub min_secs: i64,
    pub max_secs: i64,
}

static UID_ENV: Mutex<Option<UidEnv>> = Mutex::new(None);

pub fn reset_uid_env(seed: u64, clock: ClockFault, rng: RngFault) {
    let mut g = UID_ENV.lock().unwrap_or_else(|e| e.into_inner());
    *g = Some(UidEnv {
        clock,
        rng,
        now_secs: SIM_T0 as i64,
        calls_clock: 0,
        calls_rng: 0,
        rng_state: derive(seed, 0x726e67),
        min_secs: SIM_T0 as i64,
        max_secs: SIM_T0 as i64,
    });
    // The index counter is process-wide; restart it so that a run does not
    // depend on how many ids earlier runs of this process generated.
    // Mostly a small start value; now and then just below the wrap-around.
    let d = derive(seed, 0x696478);
    let start = if d % 50 == 0 { u32::MAX - ((d >> 8) % 6) as u32 } else { (d & 0xffff) as u32 };
    rbx_types::verif::INDEX.store(start, Ordering::SeqCst);
}

/// (clock calls, rng calls, simulated seconds spanned)
pub fn uid_env_stats() -> (u64, u64, u64) {
    let g = UID_ENV.lock().unwrap_or_else(|e| e.into_inner());
    match &*g {
        Some(e) => (e.calls_clock, e.calls_rng, (e.max_secs - e.min_secs) as u64),
        None => (0, 0, 0),
    }
}

// Bounds inside which UniqueId::now() is documented to work (time since the
// crate's EPOCH must fit u32 seconds). Jumps are clamped into this window; the
// property says nothing about clocks outside it.
const CLOCK_LO: i64 = 1_000;
const CLOCK_HI: i64 = 2_600_000_000;

fn hook_now() -> Option<SystemTime> {
    let mut g = UID_ENV.lock().unwrap_or_else(|e| e.into_inner());
    let e = g.as_mut()?;
    let n = e.calls_clock;
    e.calls_clock += 1;
    let delta = match &e.clock {
        ClockFault::Tick => 1,
        ClockFault::Frozen => 0,
        ClockFault::Jumps(list) if list.is_empty() => 0,
        ClockFault::Jumps(list) => list[(n as usize) % list.len()],
    };
    e.now_secs = (e.now_secs + delta).clamp(CLOCK_LO, CLOCK_HI);
    e.min_secs = e.min_secs.min(e.now_secs);
    e.max_secs = e.max_secs.max(e.now_secs);
    Some(UNIX_EPOCH + Duration::from_secs(e.now_secs as u64))
}

fn hook_rng() -> Option<u64> {
    let mut g = UID_ENV.lock().unwrap_or_else(|e| e.into_inner());
    let e = g.as_mut()?;
    let n = e.calls_rng;
    e.calls_rng += 1;
    Some(match &e.rng {
        RngFault::Seeded => {
            e.rng_state = e.rng_state.wrapping_add(0x9e3779b97f4a7c15);
            mix64(e.rng_state)
        }
        // Odd values are always accepted by rand's `gen_range(0..i64::MAX)`
        // rejection step, so a constant stream cannot spin it forever.
        RngFault::Constant(v) => *v | 1,
        RngFault::Cycle(list) if list.is_empty() => 1,
        RngFault::Cycle(list) => list[(n as usize) % list.len()] | 1,
    })
}

// ---------------------------------------------------------------------------
// Hook table.

static HOOKS: rbx_types::verif::Hooks = rbx_types::verif::Hooks {
    yield_point: crate::sched::hook_yield,
    mutex_acquire: crate::sched::hook_mutex_acquire,
    mutex_release: crate::sched::hook_mutex_release,
    mutex_try_acquire: crate::sched::hook_mutex_try_acquire,
    now: hook_now,
    rng_u64: hook_rng,
    next_ref: hook_next_ref,
};

/// Must be the first thing a worker does.
pub fn install(env_seed: u64) {
    set_env_seed(env_seed);
    if ahash::random_state::set_random_source(MapSeedSource).is_err() {
        eprintln!("rbxsim: ahash random source was already initialised");
        std::process::exit(2);
    }
    rbx_types::verif::install_hooks(&HOOKS);
    // One-time initialisations (the intern table, the reflection database)
    // happen here, not inside the first simulated run of the process.
    drop(rbx_types::SharedString::new(b"rbxsim warm-up".to_vec()));
    let _ = rbx_reflection_database::get();
}

static CUR_RUN_SEED: AtomicU64 = AtomicU64::new(0);

/// Puts every seam back into the state the current run started with, so that
/// two calls of the code under test inside one run see the same environment.
pub fn rewind() {
    begin_run(CUR_RUN_SEED.load(Ordering::Relaxed));
}

/// Puts every seam into the state derived from `run_seed`.
pub fn begin_run(run_seed: u64) {
    CUR_RUN_SEED.store(run_seed, Ordering::Relaxed);
    flush_reuse_cache();
    reset_map_seed(run_seed);
    reset_ref_stream(run_seed);
    reset_uid_env(run_seed, ClockFault::Tick, RngFault::Seeded);
}

// ---------------------------------------------------------------------------
// Counting allocator.

pub struct CountingAlloc;

static LIVE: AtomicUsize = AtomicUsize::new(0);
static PEAK: AtomicUsize = AtomicUsize::new(0);
static MAXREQ: AtomicUsize = AtomicUsize::new(0);

/// Requests above this are refused (null), which aborts the process cleanly
/// instead of taking the machine down.
pub const ALLOC_REFUSE: usize = 8 << 30;

// Address reuse seam. For simulated threads, small blocks are recycled through
// a LIFO cache per 16-byte size class that is emptied at the start of every
// run. Which earlier-freed block a later allocation receives is then a
// function of the run's (deterministic) allocation order alone, so bugs that
// depend on an address being re-used (ABA) replay exactly - and, because reuse
// is immediate, are found sooner than with the system allocator's per-thread
// caches. All small blocks, from any thread, are rounded up to their class
// size so that a block can be handed to any request of its class.
const SMALL_MAX: usize = 256;
const CLASS_STEP: usize = 16;
const N_CLASSES: usize = SMALL_MAX / CLASS_STEP;
const CACHE_DEPTH: usize = 8;

struct ReuseCache {
    locked: AtomicBool,
    count: [AtomicUsize; N_CLASSES],
    slots: [[AtomicUsize; CACHE_DEPTH]; N_CLASSES],
}

#[allow(clippy::declare_interior_mutable_const)]
const ZERO: AtomicUsize = AtomicUsize::new(0);
#[allow(clippy::declare_interior_mutable_const)]
const ZERO_ROW: [AtomicUsize; CACHE_DEPTH] = [ZERO; CACHE_DEPTH];

static REUSE: ReuseCache = ReuseCache {
    locked: AtomicBool::new(false),
    count: [ZERO; N_CLASSES],
    slots: [ZERO_ROW; N_CLASSES],
};

static REUSE_HITS: AtomicU64 = AtomicU64::new(0);

thread_local! {
    static SIM_THREAD: std::cell::Cell<bool> = const { std::cell::Cell::new(false) };
}

/// Marks the calling thread as a simulated thread (its small allocations go
/// through the reuse cache).
pub fn set_sim_thread(on: bool) {
    SIM_THREAD.with(|c| c.set(on));
}

#[inline]
fn is_sim_thread() -> bool {
    SIM_THREAD.try_with(|c| c.get()).unwrap_or(false)
}

#[inline]
fn class_of(size: usize) -> usize {
    (size.max(1) + CLASS_STEP - 1) / CLASS_STEP - 1
}

#[inline]
fn class_layout(class: usize) -> Layout {
    unsafe { Layout::from_size_align_unchecked((class + 1) * CLASS_STEP, 16) }
}

impl ReuseCache {
    #[inline]
    fn lock(&self) {
        while self.locked.compare_exchange_weak(false, true, Ordering::Acquire, Ordering::Relaxed).is_err() {
            std::hint::spin_loop();
        }
    }
    #[inline]
    fn unlock(&self) {
        self.locked.store(false, Ordering::Release);
    }
    fn pop(&self, class: usize) -> *mut u8 {
        self.lock();
        let n = self.count[class].load(Ordering::Relaxed);
        let p = if n > 0 {
            self.count[class].store(n - 1, Ordering::Relaxed);
            self.slots[class][n - 1].load(Ordering::Relaxed) as *mut u8
        } else {
            std::ptr::null_mut()
        };
        self.unlock();
        p
    }
    fn push(&self, class: usize, p: *mut u8) -> bool {
        self.lock();
        let n = self.count[class].load(Ordering::Relaxed);
        let ok = n < CACHE_DEPTH;
        if ok {
            self.slots[class][n].store(p as usize, Ordering::Relaxed);
            self.count[class].store(n + 1, Ordering::Relaxed);
        }
        self.unlock();
        ok
    }
}

/// Empties the reuse cache (start of a run).
pub fn flush_reuse_cache() {
    for class in 0..N_CLASSES {
        loop {
            let p = REUSE.pop(class);
            if p.is_null() {
                break;
            }
            unsafe { System.dealloc(p, class_layout(class)) };
        }
    }
}

pub fn reuse_hits() -> u64 {
    REUSE_HITS.load(Ordering::Relaxed)
}

unsafe impl GlobalAlloc for CountingAlloc {
    unsafe fn alloc(&self, layout: Layout) -> *mut u8 {
        let size = layout.size();
        if size >= ALLOC_REFUSE {
            refuse(size);
            return std::ptr::null_mut();
        }
        let p = if size <= SMALL_MAX && layout.align() <= 16 {
            let class = class_of(size);
            let mut p = std::ptr::null_mut();
            if is_sim_thread() {
                p = REUSE.pop(class);
                if !p.is_null() {
                    REUSE_HITS.fetch_add(1, Ordering::Relaxed);
                }
            }
            if p.is_null() {
                p = System.alloc(class_layout(class));
            }
            p
        } else {
            System.alloc(layout)
        };
        if !p.is_null() {
            account(size);
        }
        p
    }

    unsafe fn dealloc(&self, ptr: *mut u8, layout: Layout) {
        LIVE.fetch_sub(layout.size(), Ordering::Relaxed);
        if layout.size() <= SMALL_MAX && layout.align() <= 16 {
            let class = class_of(layout.size());
            if is_sim_thread() && REUSE.push(class, ptr) {
                return;
            }
            System.dealloc(ptr, class_layout(class));
        } else {
            System.dealloc(ptr, layout)
        }
    }

    unsafe fn alloc_zeroed(&self, layout: Layout) -> *mut u8 {
        let size = layout.size();
        if size <= SMALL_MAX && layout.align() <= 16 {
            let p = self.alloc(layout);
            if !p.is_null() {
                std::ptr::write_bytes(p, 0, size);
            }
            return p;
        }
        if size >= ALLOC_REFUSE {
            refuse(size);
            return std::ptr::null_mut();
        }
        let p = System.alloc_zeroed(layout);
        if !p.is_null() {
            account(size);
        }
        p
    }

    unsafe fn realloc(&self, ptr: *mut u8, layout: Layout, new_size: usize) -> *mut u8 {
        if new_size >= ALLOC_REFUSE {
            refuse(new_size);
            return std::ptr::null_mut();
        }
        let small_old = layout.size() <= SMALL_MAX && layout.align() <= 16;
        let small_new = new_size <= SMALL_MAX && layout.align() <= 16;
        if small_old || small_new {
            // Blocks of the small classes are managed by us: move by hand.
            let new_layout = Layout::from_size_align_unchecked(new_size, layout.align());
            let np = self.alloc(new_layout);
            if !np.is_null() {
                std::ptr::copy_nonoverlapping(ptr, np, layout.size().min(new_size));
                self.dealloc(ptr, layout);
            }
            return np;
        }
        let p = System.realloc(ptr, layout, new_size);
        if !p.is_null() {
            LIVE.fetch_sub(layout.size(), Ordering::Relaxed);
            account(new_size);
        }
        p
    }
}

#[inline]
fn account(size: usize) {
    let live = LIVE.fetch_add(size, Ordering::Relaxed) + size;
    if live > PEAK.load(Ordering::Relaxed) {
        PEAK.fetch_max(live, Ordering::Relaxed);
    }
    if size > MAXREQ.load(Ordering::Relaxed) {
        MAXREQ.fetch_max(size, Ordering::Relaxed);
    }
}

fn refuse(size: usize) {
    // No allocation allowed here.
    let mut buf = [0u8; 64];
    let prefix = b"RBXSIM-ALLOC-REFUSED bytes=";
    buf[..prefix.len()].copy_from_slice(prefix);
    let mut n = prefix.len();
    let mut digits = [0u8; 24];
    let mut d = 0;
    let mut v = size;
    loop {
        digits[d] = b'0' + (v % 10) as u8;
        d += 1;
        v /= 10;
        if v == 0 {
            break;
        }
    }
    while d > 0 {
        d -= 1;
        buf[n] = digits[d];
        n += 1;
    }
    buf[n] = b'\n';
    n += 1;
    unsafe {
        libc::write(2, buf.as_ptr() as *const libc::c_void, n);
    }
}

/// Starts a measurement window.
pub fn alloc_window_begin() -> usize {
    let live = LIVE.load(Ordering::Relaxed);
    PEAK.store(live, Ordering::Relaxed);
    MAXREQ.store(0, Ordering::Relaxed);
    live
}

/// (peak bytes above the level at window start, largest single request)
pub fn alloc_window_end(base: usize) -> (usize, usize) {
    let peak = PEAK.load(Ordering::Relaxed).saturating_sub(base);
    (peak, MAXREQ.load(Ordering::Relaxed))
}

//! schedsim — thread programs over the real `SharedString` intern table (C18)
//! and over `UniqueId::now()` (C12, concurrent part), executed under the
//! cooperative scheduler of `sched.rs`.

use std::collections::BTreeMap;
use std::hash::{Hash, Hasher};
use std::sync::{Arc, Mutex};

use rbx_dom_weak::types::{SharedString, UniqueId};
use serde::{Deserialize, Serialize};
use serde_json::Value;

use crate::engine::{Engine, RunCtx};
use crate::env::{ClockFault, RngFault};
use crate::prng::{Digest, Rng};
use crate::sched::{self, Strategy};

#[derive(Clone, Debug, Serialize, Deserialize, PartialEq)]
pub enum Op {
    /// slot := SharedString::new(content c)
    New { c: u8, slot: u8 },
    /// slot := clone of another local slot
    Clone { from: u8, slot: u8 },
    Drop { slot: u8 },
    Read { slot: u8 },
    Cmp { a: u8, b: u8 },
    /// slot.clone_from(&other slot)  (both filled): the other way `Clone` overwrites a handle
    CloneFrom { from: u8, slot: u8 },
    /// UniqueId::now()
    Now,
}

#[derive(Clone, Debug, Serialize, Deserialize, PartialEq)]
pub struct SchedTrace {
    /// "shared" or "uid"
    pub kind: String,
    pub threads: Vec<Vec<Op>>,
    pub strategy: Strategy,
    pub sched_seed: u64,
    /// Recorded choices (thread id per scheduling point); used when strategy is Replay.
    pub schedule: Vec<u8>,
    pub clock: ClockFault,
    pub rng: RngFault,
}

const SLOTS: usize = 4;
const STEP_CAP: usize = 20000;

fn content_bytes(run_tag: u64, c: u8) -> Vec<u8> {
    // Unique per run so that a leaked table entry of an earlier (violating)
    // run cannot interfere with this one.
    if c == 2 {
        // The empty string is a legitimate content too (shared by all runs).
        return Vec::new();
    }
    // Two 8-byte contents whose BLAKE3 digests agree in their first 64 bits
    // (ce6862b83a72a154...): distinct contents that an intern table keyed by a
    // truncated digest would confuse. Shared by all runs, like the empty string.
    if c == 3 {
        return vec![109, 80, 45, 240, 223, 150, 29, 212];
    }
    if c == 4 {
        return vec![218, 208, 132, 116, 239, 44, 9, 208];
    }
    let mut v = format!("rbxsim:{:016x}:{}", run_tag, c).into_bytes();
    // Vary lengths a little: content 1 is long.
    if c == 1 {
        v.extend(std::iter::repeat(b'x').take(300));
    }
    v
}

#[derive(Default)]
struct Registry {
    /// content id -> (thread, slot, buffer address) of registered live handles
    live: BTreeMap<u8, Vec<(usize, u8, usize)>>,
    violations: Vec<(String, String)>,
    ids: Vec<(usize, UniqueId)>,
    ops_done: u64,
}

fn hash_of(s: &SharedString) -> u64 {
    #[allow(deprecated)]
    let mut h = std::hash::SipHasher::new();
    Hash::hash(s, &mut h);
    h.finish()
}

pub struct SchedSim;

impl SchedSim {
    pub fn new() -> SchedSim {
        SchedSim
    }

    fn gen_shared(&self, r: &mut Rng, thorough: bool) -> SchedTrace {
        // Thorough tier: one run in eight is a long random multi-thread run.
        let long = thorough && r.chance(1, 8);
        let n_threads = if long { r.range(3, 5) } else { r.range(2, 4) } as usize;
        // One run in six uses the colliding pair plus one ordinary content.
        let palette: Vec<u8> = if r.chance(1, 6) { vec![3, 4, r.below(3) as u8] } else { (0..r.range(1, 3) as u8).collect() };
        let mut threads = Vec::new();
        for _ in 0..n_threads {
            let n_ops = if long { r.range(10, 30) } else { r.range(2, 8) } as usize;
            let mut ops = Vec::new();
            let mut filled = [false; SLOTS];
            for _ in 0..n_ops {
                let any = filled.iter().any(|f| *f);
                let two = filled.iter().filter(|f| **f).count() >= 2;
                let w: [u32; 6] = if any { [30, 14, 30, 10, 8, if two { 8 } else { 0 }] } else { [100, 0, 0, 0, 0, 0] };
                match r.weighted(&w) {
                    0 => {
                        let slot = r.below(SLOTS as u64) as u8;
                        ops.push(Op::New { c: *r.pick(&palette), slot });
                        filled[slot as usize] = true;
                    }
                    1 => {
                        let from = pick_filled(r, &filled);
                        let slot = r.below(SLOTS as u64) as u8;
                        if from != slot {
                            ops.push(Op::Clone { from, slot });
                            filled[slot as usize] = true;
                        }
                    }
                    2 => {
                        let slot = pick_filled(r, &filled);
                        ops.push(Op::Drop { slot });
                        filled[slot as usize] = false;
                    }
                    3 => ops.push(Op::Read { slot: pick_filled(r, &filled) }),
                    4 => ops.push(Op::Cmp { a: pick_filled(r, &filled), b: pick_filled(r, &filled) }),
                    _ => {
                        let from = pick_filled(r, &filled);
                        let slot = pick_filled(r, &filled);
                        if from != slot {
                            ops.push(Op::CloneFrom { from, slot });
                        }
                    }
                }
            }
            threads.push(ops);
        }
        SchedTrace {
            kind: "shared".into(),
            threads,
            strategy: gen_strategy(r),
            sched_seed: r.next_u64() >> 16,
            schedule: vec![],
            clock: ClockFault::Tick,
            rng: RngFault::Seeded,
        }
    }

    fn gen_uid(&self, r: &mut Rng) -> SchedTrace {
        let n_threads = r.range(2, 4) as usize;
        let threads = (0..n_threads)
            .map(|_| (0..r.range(1, 5)).map(|_| Op::Now).collect())
            .collect();
        let clock = match r.below(3) {
            0 => ClockFault::Frozen,
            1 => ClockFault::Tick,
            _ => ClockFault::Jumps(vec![0, -5, 0, 3]),
        };
        let rng = match r.below(3) {
            0 => RngFault::Constant(r.next_u64()),
            1 => RngFault::Cycle(vec![r.next_u64(), r.next_u64()]),
            _ => RngFault::Seeded,
        };
        SchedTrace {
            kind: "uid".into(),
            threads,
            strategy: gen_strategy(r),
            sched_seed: r.next_u64() >> 16,
            schedule: vec![],
            clock,
            rng,
        }
    }

    fn exec(&self, t: &SchedTrace, ctx: &mut RunCtx) {
        let run_tag = crate::prng::derive(t.sched_seed, 0x7461 ^ ctx.evals);
        let reg: Arc<Mutex<Registry>> = Arc::new(Mutex::new(Registry::default()));
        // The table is never empty (the reflection database keeps a SharedString alive
        // for the whole process), so its storage would otherwise carry capacity and
        // tombstones from one run to the next. Hook H2d rebuilds it at minimal capacity:
        // the layout that code iterating the table sees is a function of this run alone.
        rbx_types::verif_string_cache_compact();
        let baseline_len = rbx_types::verif_string_cache_len();
        if t.kind == "uid" {
            crate::env::reset_uid_env(t.sched_seed, t.clock.clone(), t.rng.clone());
        }
        let mut programs: Vec<Box<dyn FnOnce() + Send>> = Vec::new();
        for (tid, ops) in t.threads.iter().enumerate() {
            let ops = ops.clone();
            let reg = reg.clone();
            programs.push(Box::new(move || thread_program(tid, ops, reg, run_tag)));
        }
        let cfg = sched::Config {
            seed: t.sched_seed,
            strategy: t.strategy.clone(),
            replay: t.schedule.clone(),
            step_cap: STEP_CAP,
            record_sites: true,
        };
        ctx.evals += 1;
        crate::engine::tick();
        let out = sched::run(cfg, programs);

        // ---- oracles ----
        let reg = match Arc::try_unwrap(reg) {
            Ok(m) => m.into_inner().unwrap_or_else(|e| e.into_inner()),
            Err(a) => std::mem::take(&mut *a.lock().unwrap_or_else(|e| e.into_inner())),
        };
        for (key, detail) in &reg.violations {
            ctx.violate(key.clone(), detail.clone());
        }
        for p in out.panics.iter().flatten() {
            ctx.violate(p.key.clone(), format!("simulated thread panicked at {}: {}", p.location, p.message));
        }
        if out.deadlock {
            ctx.violate("progress|deadlock", format!("no runnable thread after {} scheduling points", out.steps));
        }
        if out.step_cap_hit {
            ctx.violate("progress|step-cap", format!("threads did not finish within {} scheduling points", STEP_CAP));
        }
        let clean = ctx.violations.is_empty();
        if t.kind == "shared" {
            let len = rbx_types::verif_string_cache_len();
            if clean && len != baseline_len {
                ctx.violate(
                    "quiescence|intern-table-not-empty",
                    format!("all handles dropped but the intern table holds {} entries (was {} before the run)", len, baseline_len),
                );
            }
        } else {
            let mut seen: BTreeMap<(u32, u32, i64), usize> = BTreeMap::new();
            for (tid, id) in &reg.ids {
                if let Some(prev) = seen.insert((id.index(), id.time(), id.random()), *tid) {
                    ctx.violate(
                        "uid|duplicate-generated-id",
                        format!("UniqueId::now() returned {} to thread {} and again to thread {}", id, prev, tid),
                    );
                    break;
                }
            }
            ctx.add("uid_generated", reg.ids.len() as u64);
            let (_, _, span) = crate::env::uid_env_stats();
            ctx.add("simulated_clock_seconds_spanned", span);
            match &t.clock {
                ClockFault::Frozen => ctx.count("fault_fired:clock-frozen"),
                ClockFault::Jumps(_) => ctx.count("fault_fired:clock-jumps"),
                ClockFault::Tick => {}
            }
            match &t.rng {
                RngFault::Constant(_) => ctx.count("fault_fired:rng-constant"),
                RngFault::Cycle(_) => ctx.count("fault_fired:rng-cycle"),
                RngFault::Seeded => {}
            }
        }

        // ---- reach ----
        ctx.add("scheduling_points", out.steps as u64);
        ctx.add("context_switches", out.switches as u64);
        ctx.add("fault_fired:context-switch-at-a-synchronisation-point", out.switches as u64);
        let mut pending: BTreeMap<u8, &'static str> = BTreeMap::new();
        let mut mid_op_switch = false;
        let mut window_switch = false;
        let mut last_thread: Option<u8> = None;
        let mut per_thread_prev: BTreeMap<u8, &'static str> = BTreeMap::new();
        for (th, site) in &out.sites {
            if let Some(lt) = last_thread {
                if lt != *th {
                    // `lt` was paused before `pending[lt]`.
                    if let Some(p) = pending.get(&lt) {
                        if *p != "op" {
                            mid_op_switch = true;
                        }
                        if *p == "Mutex::lock" && per_thread_prev.get(&lt) == Some(&"Arc::into_inner") {
                            window_switch = true;
                        }
                    }
                }
            }
            if let Some(prev) = pending.get(th) {
                per_thread_prev.insert(*th, prev);
                if *prev == "Weak::upgrade" && *site == "Arc::downgrade" {
                    ctx.count("probe:new_found_dead_weak");
                }
            }
            pending.insert(*th, site);
            last_thread = Some(*th);
        }
        if window_switch {
            ctx.count("probe:switch_between_last_release_and_table_cleanup");
        }
        if mid_op_switch {
            let mut d = Digest::new();
            d.str(&t.kind);
            d.str(&format!("{:?}", t.threads));
            d.bytes(&out.choices);
            ctx.distinct.insert(d.finish());
        }
        ctx.log.bytes(&out.choices);
        ctx.log.u64(reg.ops_done);
        // Remember the schedule actually taken so a violation can be replayed exactly.
        *LAST_SCHEDULE.lock().unwrap_or_else(|e| e.into_inner()) = out.choices.clone();
    }
}

/// Schedule taken by the most recent execution in this process (runs execute one
/// at a time, each on its own thread, so this is a plain global).
static LAST_SCHEDULE: Mutex<Vec<u8>> = Mutex::new(Vec::new());

fn pick_filled(r: &mut Rng, filled: &[bool; SLOTS]) -> u8 {
    let idx: Vec<u8> = (0..SLOTS as u8).filter(|i| filled[*i as usize]).collect();
    if idx.is_empty() {
        0
    } else {
        *r.pick(&idx)
    }
}

fn gen_strategy(r: &mut Rng) -> Strategy {
    match r.below(8) {
        0 | 1 => Strategy::Random,
        2 => Strategy::Sticky(20),
        3 => Strategy::Sticky(100),
        4 => Strategy::Sticky(500),
        5 => Strategy::Pct(1),
        6 => Strategy::Pct(2),
        _ => Strategy::Pct(3),
    }
}

fn lock(reg: &Arc<Mutex<Registry>>) -> std::sync::MutexGuard<'_, Registry> {
    reg.lock().unwrap_or_else(|e| e.into_inner())
}

fn thread_program(tid: usize, ops: Vec<Op>, reg: Arc<Mutex<Registry>>, run_tag: u64) {
    let mut slots: Vec<Option<(SharedString, u8)>> = (0..SLOTS).map(|_| None).collect();


    // Registers a freshly obtained handle: every other registered handle with
    // equal contents is live right now, so the buffers must be the same.
    let register = |reg: &Arc<Mutex<Registry>>, slot: u8, c: u8, h: &SharedString| {
        let ptr = h.data().as_ptr() as usize;
        let mut g = lock(reg);
        let mut bad: Option<(usize, u8)> = None;
        if let Some(list) = g.live.get(&c) {
            for (ot, os, optr) in list {
                if *optr != ptr {
                    bad = Some((*ot, *os));
                    break;
                }
            }
        }
        if let Some((ot, os)) = bad {
            g.violations.push((
                "sharing|equal-live-handles-different-buffers".into(),
                format!(
                    "thread {} obtained a handle for content {} whose buffer differs from the live handle held by thread {} slot {}",
                    tid, c, ot, os
                ),
            ));
        }
        g.live.entry(c).or_default().push((tid, slot, ptr));
    };
    let unregister = |reg: &Arc<Mutex<Registry>>, slot: u8, c: u8| {
        let mut g = lock(reg);
        if let Some(list) = g.live.get_mut(&c) {
            if let Some(pos) = list.iter().position(|(t, s, _)| *t == tid && *s == slot) {
                list.remove(pos);
            }
        }
    };
    let drop_slot = |reg: &Arc<Mutex<Registry>>, slots: &mut Vec<Option<(SharedString, u8)>>, slot: u8| {
        if let Some((h, c)) = slots[slot as usize].take() {
            unregister(reg, slot, c);
            drop(h);
        }
    };

    for op in ops {
        sched::harness_yield("op");
        match op {
            Op::New { c, slot } => {
                drop_slot(&reg, &mut slots, slot);
                sched::harness_yield("op");
                let expected = content_bytes(run_tag, c);
                let h = SharedString::new(expected.clone());
                if h.data() != expected.as_slice() {
                    lock(&reg).violations.push((
                        "content|data-mismatch".into(),
                        format!("SharedString::new returned a handle whose data differs from its input (content {})", c),
                    ));
                }
                register(&reg, slot, c, &h);
                slots[slot as usize] = Some((h, c));
            }
            Op::Clone { from, slot } => {
                if from == slot {
                    continue;
                }
                drop_slot(&reg, &mut slots, slot);
                sched::harness_yield("op");
                if let Some((h, c)) = &slots[from as usize] {
                    let c = *c;
                    let h2 = h.clone();
                    register(&reg, slot, c, &h2);
                    slots[slot as usize] = Some((h2, c));
                }
            }
            Op::CloneFrom { from, slot } => {
                if from == slot {
                    continue;
                }
                let src = match &slots[from as usize] {
                    Some((h, c)) => (h.clone(), *c),
                    None => continue,
                };
                // `src.0` is a temporary extra handle of the source content: register it
                // like any other so that the sharing oracle sees it.
                register(&reg, 100 + slot, src.1, &src.0);
                if let Some((mut h, old_c)) = slots[slot as usize].take() {
                    unregister(&reg, slot, old_c);
                    sched::harness_yield("op");
                    h.clone_from(&src.0);
                    let expected = content_bytes(run_tag, src.1);
                    if h.data() != expected.as_slice() {
                        lock(&reg).violations.push((
                            "content|data-mismatch".into(),
                            format!("after clone_from the handle exposes other bytes than content {}", src.1),
                        ));
                    }
                    register(&reg, slot, src.1, &h);
                    slots[slot as usize] = Some((h, src.1));
                }
                unregister(&reg, 100 + slot, src.1);
                drop(src);
            }
            Op::Drop { slot } => drop_slot(&reg, &mut slots, slot),
            Op::Read { slot } => {
                if let Some((h, c)) = &slots[slot as usize] {
                    let expected = content_bytes(run_tag, *c);
                    if h.data() != expected.as_slice() {
                        lock(&reg).violations.push((
                            "content|data-mismatch".into(),
                            format!("handle for content {} exposes different bytes", c),
                        ));
                    }
                }
            }
            Op::Cmp { a, b } => {
                if let (Some((ha, ca)), Some((hb, cb))) = (&slots[a as usize], &slots[b as usize]) {
                    let same = ca == cb;
                    if (ha == hb) != same {
                        lock(&reg).violations.push((
                            "content|eq-mismatch".into(),
                            format!("handles for contents {} and {} compare {}", ca, cb, ha == hb),
                        ));
                    }
                    if same && hash_of(ha) != hash_of(hb) {
                        lock(&reg).violations.push(("content|hash-mismatch".into(), format!("equal handles (content {}) hash differently", ca)));
                    }
                }
            }
            Op::Now => match UniqueId::now() {
                Ok(id) => lock(&reg).ids.push((tid, id)),
                Err(e) => lock(&reg).violations.push(("uid|now-failed".into(), e.to_string())),
            },
        }
        lock(&reg).ops_done += 1;
    }
    // Drop whatever is left, still under the scheduler.
    for slot in 0..SLOTS as u8 {
        sched::harness_yield("op");
        drop_slot(&reg, &mut slots, slot);
    }
}

impl Engine for SchedSim {
    fn name(&self) -> &'static str {
        "schedsim"
    }

    fn generate(&self, run_seed: u64, _index: u64, property: &str, thorough: bool) -> Value {
        let mut r = Rng::new(run_seed);
        let t = if property == "C12" { self.gen_uid(&mut r) } else { self.gen_shared(&mut r, thorough) };
        serde_json::to_value(&t).unwrap()
    }

    fn execute(&self, trace: &Value, ctx: &mut RunCtx) {
        let t: SchedTrace = match serde_json::from_value(trace.clone()) {
            Ok(t) => t,
            Err(e) => {
                ctx.violate("harness|bad-trace", e.to_string());
                return;
            }
        };
        ctx.count(&format!("programs:{}", t.kind));
        ctx.count(&format!("strategy:{}", format!("{:?}", t.strategy).split('(').next().unwrap_or("")));
        ctx.add("threads", t.threads.len() as u64);
        self.exec(&t, ctx);
    }

    fn narrow(&self, trace: &Value, _ctx: &RunCtx) -> Value {
        // Pin the schedule actually taken.
        let mut t: SchedTrace = match serde_json::from_value(trace.clone()) {
            Ok(t) => t,
            Err(_) => return trace.clone(),
        };
        t.schedule = LAST_SCHEDULE.lock().unwrap_or_else(|e| e.into_inner()).clone();
        t.strategy = Strategy::Replay;
        serde_json::to_value(&t).unwrap()
    }

    fn shrink_candidates(&self, trace: &Value, _key: &str) -> Vec<Value> {
        let t: SchedTrace = match serde_json::from_value(trace.clone()) {
            Ok(t) => t,
            Err(_) => return vec![],
        };
        let mut out: Vec<SchedTrace> = Vec::new();
        // Drop a whole thread (schedule entries of later threads shift down).
        if t.threads.len() > 2 {
            for i in 0..t.threads.len() {
                let mut c = t.clone();
                c.threads.remove(i);
                c.schedule = t
                    .schedule
                    .iter()
                    .filter(|&&x| x as usize != i)
                    .map(|&x| if x as usize > i { x - 1 } else { x })
                    .collect();
                out.push(c);
            }
        }
        // Drop one operation.
        for i in 0..t.threads.len() {
            for j in 0..t.threads[i].len() {
                let mut c = t.clone();
                c.threads[i].remove(j);
                out.push(c);
            }
        }
        // Fewer context switches: replace a choice by the previous one.
        for i in 1..t.schedule.len() {
            if t.schedule[i] != t.schedule[i - 1] {
                let mut c = t.clone();
                c.schedule[i] = c.schedule[i - 1];
                out.push(c);
            }
        }
        // Shorter schedule tail (replay then keeps running the current thread).
        if t.schedule.len() > 1 {
            let mut c = t.clone();
            c.schedule.truncate(t.schedule.len() / 2);
            out.push(c);
            let mut c = t.clone();
            c.schedule.pop();
            out.push(c);
        }
        out.into_iter().map(|t| serde_json::to_value(&t).unwrap()).collect()
    }

    fn distinct_rule(&self, property: &str) -> String {
        if property == "C12" {
            "One evaluation is one execution of 2-4 threads calling UniqueId::now() under the seeded scheduler with a clock/RNG fault plan. Counted as distinct non-trivial: distinct (thread programs, schedule actually taken) pairs in which at least one context switch happened while a thread was paused in the middle of an operation (before a synchronisation operation other than the first of that operation).".into()
        } else {
            "One evaluation is one execution of 2-4 thread programs (new/clone/clone_from/drop/read/compare over 1-3 contents) against the real SharedString and the real global intern table under the seeded scheduler. Counted as distinct non-trivial: distinct (thread programs, schedule actually taken) pairs in which at least one context switch happened while a thread was paused mid-operation (for example between a handle's final release and its table clean-up, or inside new() between lookup and insert).".into()
        }
    }

    fn assumptions(&self, _property: &str) -> Vec<String> {
        vec![
            "Interleavings are explored at the granularity of synchronisation operations of the shimmed Arc/Weak/Mutex/AtomicU32 (every such operation is preceded by a scheduling point); data races on unsynchronised memory are invisible here (the Miri tier covers them).".into(),
            "The shim wraps the real std primitives; only the choice of which thread runs next is simulated.".into(),
            "Under the guard STRING_CACHE is a std HashMap with a fixed-key hasher (hook H2c): if the code iterates it, the order is a function of the insertion history, not of a per-thread random state.".into(),
        ]
    }
}
